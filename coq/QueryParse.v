(* QueryParse.v — filters over a query in disjunctive form, [?( b && b ... || b && b ... )], through the regenerated
   grammar: query is andQuery (|| andQuery)*, andQuery is basicQuery (&& basicQuery)*; a basic query here is an
   existence test @steps, its negation !@steps, or a comparison @steps OP number.  No blanks inside. *)
From JP Require Import Peg Grammar Text Tree Actions PegFacts PegMono PegEv FuelRules ParseFacts KeyDefs KeyParse IdxParse SliceParse UnionParse WildParse RecParse ChainParse SpacePath FunParse AggParse Frame FiltParse CmpParse NegFilt LitParse RootOp RegexOp LitLeft NoDollar.
From Coq Require Import Lia.
Local Open Scope N_scope.
Open Scope list_scope.

Definition bq_ok (b : bq) : bool :=
  match b with
  | BE i | BN i => forallb rstep_ok i
  | BC i o lit => forallb rstep_ok i && negb (steps_vg i) && lit_ok lit
  | BL i ne l => forallb rstep_ok i && negb (steps_vg i) && litv_ok l
  | BRE j | BRN j => forallb rstep_ok j
  | BCR i o j => forallb rstep_ok i && negb (steps_vg i) && (forallb rstep_ok j && negb (steps_vg j)) &&
                 match o with OLt | OLe | OGt | OGe => true | _ => false end
  | BPQ i ne j => forallb rstep_ok i && negb (steps_vg i) && (forallb rstep_ok j && negb (steps_vg j))
  | BX i body => forallb rstep_ok i && negb (steps_vg i) && re_plain body
  | BCL lit o i => forallb rstep_ok i && negb (steps_vg i) && lit_ok lit
  | BLL l ne i => forallb rstep_ok i && negb (steps_vg i) && litv_ok l
  | BRL j o i => forallb rstep_ok i && negb (steps_vg i) && (forallb rstep_ok j && negb (steps_vg j))
  end.
Definition eq_text (ne : bool) : list N := if ne then [33; 61] else [61; 61].
Definition bq_tokens (pos : nat) (b : bq) : list token :=
  match b with
  | BE i => [TAct 38] ++ inner_tokens pos i ++ [TAct 39; TText pos (pos + 1 + List.length (render_steps i)); TAct 27]
  | BN i => [TAct 38] ++ inner_tokens (pos + 1) i ++ [TAct 39; TText pos (pos + 2 + List.length (render_steps i)); TAct 27]
  | BC i o lit => cmp39_tokens pos i o lit ++
                  [TText pos (pos + (1 + List.length (render_steps i) + List.length (op_text o) + List.length lit)); TAct 26]
  | BL i ne l => left43_tokens pos i ++ litv_tokens (pos + 1 + List.length (render_steps i) + 2) l ++ [TAct 35; TAct (if ne then 29%nat else 28%nat)] ++
                 [TText pos (pos + (1 + List.length (render_steps i) + 2 + List.length (litv_text l))); TAct 26]
  | BRE j => [TAct 38] ++ rtok pos j ++ [TAct 39; TText pos (pos + 1 + List.length (render_steps j)); TAct 27]
  | BRN j => [TAct 38] ++ rtok (pos + 1) j ++ [TAct 39; TText pos (pos + 2 + List.length (render_steps j)); TAct 27]
  | BCR i o j => left43_tokens pos i ++ right43_tokens (pos + 1 + List.length (render_steps i) + List.length (op_text o)) j ++ [TAct (op_act o)] ++
                 [TText pos (pos + (1 + List.length (render_steps i) + List.length (op_text o) + (1 + List.length (render_steps j)))); TAct 26]
  | BPQ i ne j => left43_tokens pos i ++ right43_tokens (pos + 1 + List.length (render_steps i) + 2) j ++ [TAct (if ne then 29%nat else 28%nat)] ++
                  [TText pos (pos + (1 + List.length (render_steps i) + 2 + (1 + List.length (render_steps j)))); TAct 26]
  | BX i body => rx39_tokens pos i body ++ [TText pos (pos + (1 + List.length (render_steps i) + 3 + List.length body + 1)); TAct 26]
  | BCL lit o i => lcmp39_tokens pos lit o i ++
                   [TText pos (pos + (List.length lit + List.length (op_text o) + 1 + List.length (render_steps i))); TAct 26]
  | BLL l ne i => litv_tokens pos l ++ [TAct 35] ++ left43_tokens (pos + List.length (litv_text l) + 2) i ++ [TAct (if ne then 29%nat else 28%nat)] ++
                  [TText pos (pos + (List.length (litv_text l) + 2 + 1 + List.length (render_steps i))); TAct 26]
  | BRL j o i => rl39_tokens pos j o i ++
                 [TText pos (pos + (1 + List.length (render_steps j) + List.length (op_text o) + 1 + List.length (render_steps i))); TAct 26]
  end.

Lemma bq_text_len b : List.length (bq_text b) =
  match b with
  | BE i => (1 + List.length (render_steps i))%nat
  | BN i => (2 + List.length (render_steps i))%nat
  | BC i o lit => (1 + List.length (render_steps i) + List.length (op_text o) + List.length lit)%nat
  | BL i ne l => (1 + List.length (render_steps i) + 2 + List.length (litv_text l))%nat
  | BRE j => (1 + List.length (render_steps j))%nat
  | BRN j => (2 + List.length (render_steps j))%nat
  | BCR i o j => (1 + List.length (render_steps i) + List.length (op_text o) + (1 + List.length (render_steps j)))%nat
  | BPQ i ne j => (1 + List.length (render_steps i) + 2 + (1 + List.length (render_steps j)))%nat
  | BX i body => (1 + List.length (render_steps i) + 3 + List.length body + 1)%nat
  | BCL lit o i => (List.length lit + List.length (op_text o) + 1 + List.length (render_steps i))%nat
  | BLL l ne i => (List.length (litv_text l) + 2 + 1 + List.length (render_steps i))%nat
  | BRL j o i => (1 + List.length (render_steps j) + List.length (op_text o) + 1 + List.length (render_steps i))%nat
  end.
Proof. destruct b as [i|i|i o lit|i ne l|j|j|i o j|i ne j|i body|lit o i|l ne i|j o i]; cbn [bq_text List.length]; rewrite ?app_length; cbn [List.length]; rewrite ?app_length; cbn [List.length]; try lia; destruct ne; cbn [List.length]; lia. Qed.
Lemma bq_head b : bq_ok b = true -> exists x r, bq_text b = x :: r /\ x <> 32.
Proof.
  intros Hb. destruct b as [i|i|i o lit|i ne l|j|j|i o j|i ne j|i body|lit o i|l ne i|j o i]; cbn [bq_text]; try (eexists _, _; (split; [reflexivity|discriminate])).
  - cbn [bq_ok] in Hb. apply andb_true_iff in Hb. destruct Hb as [_ Hl]. destruct (lit_head lit Hl) as (c1 & r & E & H32 & _). rewrite E. cbn [app].
    eexists _, _. split; [reflexivity|exact H32].
  - cbn [bq_ok] in Hb. apply andb_true_iff in Hb. destruct Hb as [_ Hl]. destruct (litv_head l Hl) as (c1 & r & E & H32 & _). rewrite E. cbn [app].
    eexists _, _. split; [reflexivity|exact H32].
Qed.

Lemma ev35_bq b c t pos : bq_ok b = true -> qend c ->
  evG (PRef 35) (bq_text b ++ c :: t) pos (POk (c :: t) (pos + List.length (bq_text b)) (bq_tokens pos b)).
Proof.
  intros Hb Hq. rewrite bq_text_len. destruct b as [i|i|i o lit|i ne l|j|j|i o j|i ne j|i body|lit o i|l ne i|j o i]; cbn [bq_ok bq_text bq_tokens app] in *.
  - eapply ev_conv.
    + eapply ev_ref; [reflexivity|].
      apply ev_alt_r; [apply ev_seq_fail; eapply ev_ref; [reflexivity|]; apply ev_seq_fail; apply (ev_lit_fail G [40]); reflexivity|].
      apply ev_alt_r; [apply ev_seq_fail; apply ev_cap_fail; apply (ev_rule39_exists_q i c t pos Hb Hq)|].
      eapply ev_seq_ok; [apply ev_cap| apply ev_act |reflexivity].
      eapply ev_seq_ok; [apply ev_opt_none; eapply ev_ref; [reflexivity|]; apply ev_seq_fail; apply (ev_lit_fail G [33]); reflexivity| |reflexivity].
      apply (ev_rule44_q i c t pos Hb Hq).
    + f_equal; try lia. repeat (progress (cbn [app]) || rewrite <- app_assoc || rewrite app_nil_r). reflexivity.
  - eapply ev_conv.
    + eapply ev_ref; [reflexivity|].
      apply ev_alt_r; [apply ev_seq_fail; eapply ev_ref; [reflexivity|]; apply ev_seq_fail; apply (ev_lit_fail G [40]); reflexivity|].
      apply ev_alt_r; [apply ev_seq_fail; apply ev_cap_fail; apply ev_rule39_bang|].
      eapply ev_seq_ok; [apply ev_cap| apply ev_act |reflexivity].
      eapply ev_seq_ok; [apply ev_opt_some; eapply ev_ref; [reflexivity|];
                         eapply ev_seq_ok; [apply (ev_lit_ok G [33]); apply strip1_ok|apply ev_space_stop; discriminate|reflexivity]| |reflexivity].
      apply (ev_rule44_q i c t _ Hb Hq).
    + cbn [List.length app Nat.add]. f_equal; try lia.
      replace (pos + 1 + 0)%nat with (pos + 1)%nat by lia. replace (pos + 1 + 1 + List.length (render_steps i))%nat with (pos + 2 + List.length (render_steps i))%nat by lia.
      repeat (progress (cbn [app]) || rewrite <- app_assoc || rewrite app_nil_r). reflexivity.
  - apply andb_true_iff in Hb. destruct Hb as [Hb Hl]. apply andb_true_iff in Hb. destruct Hb as [Hs _].
    replace (64 :: (render_steps i ++ op_text o ++ lit) ++ c :: t) with (64 :: render_steps i ++ op_text o ++ lit ++ c :: t)
      by (rewrite <- !app_assoc; reflexivity).
    eapply ev_conv.
    + eapply ev_ref; [reflexivity|].
      apply ev_alt_r; [apply ev_seq_fail; eapply ev_ref; [reflexivity|]; apply ev_seq_fail; apply (ev_lit_fail G [40]); reflexivity|].
      apply ev_alt_l. eapply ev_seq_ok; [apply ev_cap; apply (ev_rule39_cmp i lit t c Hq Hs Hl o pos)|apply ev_act|reflexivity].
    + f_equal; try lia.
      replace (pos + 1 + List.length (render_steps i) + List.length (op_text o) + List.length lit)%nat
        with (pos + (1 + List.length (render_steps i) + List.length (op_text o) + List.length lit))%nat by lia.
      rewrite <- !app_assoc. reflexivity.
  - apply andb_true_iff in Hb. destruct Hb as [Hb Hl]. apply andb_true_iff in Hb. destruct Hb as [Hs _].
    destruct (litv_head l Hl) as (x & xr & Ex & Hx32 & _).
    set (L := List.length (render_steps i)).
    assert (Hgen : forall c1 act, (c1 = 33 /\ act = 29%nat \/ c1 = 61 /\ act = 28%nat) ->
              evG (PRef 35) (64 :: render_steps i ++ c1 :: 61 :: litv_text l ++ c :: t) pos
                  (POk (c :: t) (pos + (1 + L + 2 + List.length (litv_text l)))
                       (left43_tokens pos i ++ litv_tokens (pos + 1 + L + 2) l ++ [TAct 35; TAct act] ++
                        [TText pos (pos + (1 + L + 2 + List.length (litv_text l))); TAct 26]))).
    { intros c1 act Hcase.
      assert (Hc1 : closer c1 /\ c1 <> 32) by (destruct Hcase as [[E _]|[E _]]; subst c1; (split; [unfold closer; repeat split; try reflexivity; discriminate|discriminate])).
      destruct Hc1 as [Hc1 Hc32].
      assert (E43 := ev_rule43_c i c1 (61 :: litv_text l ++ c :: t) pos Hs Hc1).
      assert (Eright : evG (PSeq (PRef 58) (PSeq (PRef 40) (PAct act))) (litv_text l ++ c :: t) (pos + 1 + L + 2)
                           (POk (c :: t) (pos + 1 + L + 2 + List.length (litv_text l)) (litv_tokens (pos + 1 + L + 2) l ++ [TAct 35; TAct act]))).
      { eapply ev_conv.
        - assert (Esp : forall q rest, evG (PRef 58) (litv_text l ++ rest) q (POk (litv_text l ++ rest) q []))
            by (intros q rest; rewrite Ex; cbn [app]; apply ev_space_stop; exact Hx32).
          eapply ev_seq_ok; [apply Esp| |reflexivity].
          eapply ev_seq_ok; [|apply ev_act|reflexivity].
          eapply ev_ref; [reflexivity|]. apply ev_alt_l. eapply ev_seq_ok; [apply (ev_rule42_litv l c t _ Hl)|apply ev_act|reflexivity].
        - cbn [app]. rewrite <- !app_assoc. reflexivity. }
      destruct Hcase as [[E1 E2]|[E1 E2]]; subst c1 act.
      - eapply ev_conv.
        + eapply ev_ref; [reflexivity|].
          apply ev_alt_r; [apply ev_seq_fail; eapply ev_ref; [reflexivity|]; apply ev_seq_fail; apply (ev_lit_fail G [40]); reflexivity|].
          apply ev_alt_l. eapply ev_seq_ok; [apply ev_cap|apply ev_act|reflexivity].
          eapply ev_ref; [reflexivity|]. apply ev_alt_l.
          eapply ev_seq_ok; [eapply ev_ref; [reflexivity|]; apply ev_alt_r; [apply ev_seq_fail; apply ev_rule42_at|exact E43]| |reflexivity].
          eapply ev_seq_ok; [apply ev_space_stop; exact Hc32| |reflexivity].
          apply ev_alt_r; [apply ev_seq_fail; apply (ev_lit_fail G [61; 61]); reflexivity|].
          eapply ev_seq_ok; [apply (ev_lit_ok G [33; 61]); reflexivity|exact Eright|reflexivity].
        + fold L. cbn [List.length Nat.add]. f_equal; try lia.
          replace (pos + 1 + L + 2 + List.length (litv_text l))%nat with (pos + (1 + L + 2 + List.length (litv_text l)))%nat by lia.
          repeat (progress (cbn [app]) || rewrite <- app_assoc || rewrite app_nil_r). reflexivity.
      - eapply ev_conv.
        + eapply ev_ref; [reflexivity|].
          apply ev_alt_r; [apply ev_seq_fail; eapply ev_ref; [reflexivity|]; apply ev_seq_fail; apply (ev_lit_fail G [40]); reflexivity|].
          apply ev_alt_l. eapply ev_seq_ok; [apply ev_cap|apply ev_act|reflexivity].
          eapply ev_ref; [reflexivity|]. apply ev_alt_l.
          eapply ev_seq_ok; [eapply ev_ref; [reflexivity|]; apply ev_alt_r; [apply ev_seq_fail; apply ev_rule42_at|exact E43]| |reflexivity].
          eapply ev_seq_ok; [apply ev_space_stop; exact Hc32| |reflexivity].
          apply ev_alt_l. eapply ev_seq_ok; [apply (ev_lit_ok G [61; 61]); reflexivity|exact Eright|reflexivity].
        + fold L. cbn [List.length Nat.add]. f_equal; try lia.
          replace (pos + 1 + L + 2 + List.length (litv_text l))%nat with (pos + (1 + L + 2 + List.length (litv_text l)))%nat by lia.
          repeat (progress (cbn [app]) || rewrite <- app_assoc || rewrite app_nil_r). reflexivity. }
    destruct ne.
    + replace (64 :: (render_steps i ++ [33; 61] ++ litv_text l) ++ c :: t) with (64 :: render_steps i ++ 33 :: 61 :: litv_text l ++ c :: t)
        by (cbn [app]; rewrite <- !app_assoc; reflexivity).
      apply (Hgen 33 29%nat). left. split; reflexivity.
    + replace (64 :: (render_steps i ++ [61; 61] ++ litv_text l) ++ c :: t) with (64 :: render_steps i ++ 61 :: 61 :: litv_text l ++ c :: t)
        by (cbn [app]; rewrite <- !app_assoc; reflexivity).
      apply (Hgen 61 28%nat). right. split; reflexivity.
  - (* $ steps *) pose proof (qend_closer c Hq) as Hc. eapply ev_conv.
    + eapply ev_ref; [reflexivity|].
      apply ev_alt_r; [apply ev_seq_fail; eapply ev_ref; [reflexivity|]; apply ev_seq_fail; apply (ev_lit_fail G [40]); reflexivity|].
      apply ev_alt_r; [apply ev_seq_fail; apply ev_cap_fail; apply (ev_rule39_root_q j c t pos Hb Hq)|].
      eapply ev_seq_ok; [apply ev_cap| apply ev_act |reflexivity].
      eapply ev_seq_ok; [apply ev_opt_none; eapply ev_ref; [reflexivity|]; apply ev_seq_fail; apply (ev_lit_fail G [33]); reflexivity| |reflexivity].
      apply (ev_rule44_root j c t pos Hb Hc).
    + f_equal; try lia. repeat (progress (cbn [app]) || rewrite <- app_assoc || rewrite app_nil_r). reflexivity.
  - (* !$ steps *) pose proof (qend_closer c Hq) as Hc. eapply ev_conv.
    + eapply ev_ref; [reflexivity|].
      apply ev_alt_r; [apply ev_seq_fail; eapply ev_ref; [reflexivity|]; apply ev_seq_fail; apply (ev_lit_fail G [40]); reflexivity|].
      apply ev_alt_r; [apply ev_seq_fail; apply ev_cap_fail; apply ev_rule39_bang|].
      eapply ev_seq_ok; [apply ev_cap| apply ev_act |reflexivity].
      eapply ev_seq_ok; [apply ev_opt_some; eapply ev_ref; [reflexivity|];
                         eapply ev_seq_ok; [apply (ev_lit_ok G [33]); apply strip1_ok|apply ev_space_stop; discriminate|reflexivity]| |reflexivity].
      apply (ev_rule44_root j c t _ Hb Hc).
    + cbn [List.length app Nat.add]. f_equal; try lia.
      replace (pos + 1 + 0)%nat with (pos + 1)%nat by lia. replace (pos + 1 + 1 + List.length (render_steps j))%nat with (pos + 2 + List.length (render_steps j))%nat by lia.
      repeat (progress (cbn [app]) || rewrite <- app_assoc || rewrite app_nil_r). reflexivity.
  - (* @ steps OP $ steps *)
    apply andb_true_iff in Hb. destruct Hb as [Hb Ho]. apply andb_true_iff in Hb. destruct Hb as [Hb Hj]. apply andb_true_iff in Hb. destruct Hb as [Hs _].
    apply andb_true_iff in Hj. destruct Hj as [Hsj _]. pose proof (qend_closer c Hq) as Hc.
    set (Li := List.length (render_steps i)). set (Lj := List.length (render_steps j)).
    replace (64 :: (render_steps i ++ op_text o ++ 36 :: render_steps j) ++ c :: t) with (64 :: render_steps i ++ op_text o ++ 36 :: render_steps j ++ c :: t)
      by (cbn [app]; rewrite <- !app_assoc; reflexivity).
    destruct (closer_op o (36 :: render_steps j ++ c :: t)) as (c1 & r' & Eop & Hc1).
    assert (E43l : evG (PRef 43) (64 :: render_steps i ++ op_text o ++ 36 :: render_steps j ++ c :: t) pos
                       (POk (op_text o ++ 36 :: render_steps j ++ c :: t) (pos + 1 + Li) (left43_tokens pos i))).
    { rewrite Eop. apply (ev_rule43_c i c1 r' pos Hs Hc1). }
    assert (Hsp : forall q, evG (PRef 58) (op_text o ++ 36 :: render_steps j ++ c :: t) q (POk (op_text o ++ 36 :: render_steps j ++ c :: t) q [])).
    { intros q. destruct o; cbn [op_text app]; apply ev_space_stop; discriminate. }
    (* the first alternative (== / !=) fails after the operand: an ordering operator follows *)
    assert (A1 : evG (PSeq (PRef 40) (PSeq (PRef 58) (PAlt (PSeq (PLit [61; 61]) (PSeq (PRef 58) (PSeq (PRef 40) (PAct 28))))
                                                          (PSeq (PLit [33; 61]) (PSeq (PRef 58) (PSeq (PRef 40) (PAct 29)))))))
                     (64 :: render_steps i ++ op_text o ++ 36 :: render_steps j ++ c :: t) pos PFail).
    { eapply ev_seq_fail2; [eapply ev_ref; [reflexivity|]; apply ev_alt_r; [apply ev_seq_fail; apply ev_rule42_at|exact E43l]|].
      eapply ev_seq_fail2; [apply Hsp|].
      destruct o; try discriminate Ho; cbn [op_text app]; apply ev_alt_r; apply ev_seq_fail; apply (ev_lit_fail G); reflexivity. }
    (* operator, blanks, the root operand, the action *)
    assert (Eright : forall k p, evG (PSeq (PRef 58) (PSeq (PRef 41) (PAct k))) (36 :: render_steps j ++ c :: t) p
                                 (POk (c :: t) (p + 1 + Lj) (right43_tokens p j ++ [TAct k]))).
    { intros k p. eapply ev_conv.
      - eapply ev_seq_ok; [apply ev_space_stop; discriminate| |reflexivity].
        eapply ev_seq_ok; [|apply ev_act|reflexivity].
        eapply ev_ref; [reflexivity|]. apply ev_alt_r; [apply ev_seq_fail; apply ev_rule45_nonnum; reflexivity|]. apply (ev_rule43_root j c t _ Hsj Hc).
      - cbn [app]. reflexivity. }
    set (K := List.length (op_text o)).
    assert (Ealt : evG (PAlt (PSeq (PLit [60; 61]) (PSeq (PRef 58) (PSeq (PRef 41) (PAct 30))))
                         (PAlt (PSeq (PLit [60]) (PSeq (PRef 58) (PSeq (PRef 41) (PAct 31))))
                         (PAlt (PSeq (PLit [62; 61]) (PSeq (PRef 58) (PSeq (PRef 41) (PAct 32))))
                               (PSeq (PLit [62]) (PSeq (PRef 58) (PSeq (PRef 41) (PAct 33)))))))
                       (op_text o ++ 36 :: render_steps j ++ c :: t) (pos + 1 + Li)
                       (POk (c :: t) (pos + 1 + Li + K + 1 + Lj) (right43_tokens (pos + 1 + Li + K) j ++ [TAct (op_act o)]))).
    { unfold K. destruct o; try discriminate Ho; cbn [op_text app op_act List.length].
      - eapply ev_conv; [|reflexivity].
        apply ev_alt_r; [apply ev_seq_fail; apply (ev_lit_fail G [60; 61]); reflexivity|].
        apply ev_alt_l. eapply ev_seq_ok; [apply (ev_lit_ok G [60]); apply strip1_ok|apply (Eright 31%nat)|reflexivity].
      - eapply ev_conv; [|reflexivity].
        apply ev_alt_l. eapply ev_seq_ok; [apply (ev_lit_ok G [60; 61]); reflexivity|apply (Eright 30%nat)|reflexivity].
      - eapply ev_conv; [|reflexivity].
        apply ev_alt_r; [apply ev_seq_fail; apply (ev_lit_fail G [60; 61]); reflexivity|].
        apply ev_alt_r; [apply ev_seq_fail; apply (ev_lit_fail G [60]); reflexivity|].
        apply ev_alt_r; [apply ev_seq_fail; apply (ev_lit_fail G [62; 61]); reflexivity|].
        eapply ev_seq_ok; [apply (ev_lit_ok G [62]); apply strip1_ok|apply (Eright 33%nat)|reflexivity].
      - eapply ev_conv; [|reflexivity].
        apply ev_alt_r; [apply ev_seq_fail; apply (ev_lit_fail G [60; 61]); reflexivity|].
        apply ev_alt_r; [apply ev_seq_fail; apply (ev_lit_fail G [60]); reflexivity|].
        apply ev_alt_l. eapply ev_seq_ok; [apply (ev_lit_ok G [62; 61]); reflexivity|apply (Eright 32%nat)|reflexivity]. }
    eapply ev_conv.
    + eapply ev_ref; [reflexivity|].
      apply ev_alt_r; [apply ev_seq_fail; eapply ev_ref; [reflexivity|]; apply ev_seq_fail; apply (ev_lit_fail G [40]); reflexivity|].
      apply ev_alt_l. eapply ev_seq_ok; [apply ev_cap|apply ev_act|reflexivity].
      eapply ev_ref; [reflexivity|]. apply ev_alt_r; [exact A1|]. apply ev_alt_l.
      eapply ev_seq_ok; [eapply ev_ref; [reflexivity|]; apply ev_alt_r; [apply ev_seq_fail; apply ev_rule45_at|exact E43l]| |reflexivity].
      eapply ev_seq_ok; [apply Hsp|exact Ealt|reflexivity].
    + fold Li Lj K. f_equal; try lia.
      replace (pos + 1 + Li + K + 1 + Lj)%nat with (pos + (1 + Li + K + (1 + Lj)))%nat by lia.
      repeat (progress (cbn [app]) || rewrite <- app_assoc || rewrite app_nil_r). reflexivity.
  - (* @ steps == $ steps, @ steps != $ steps *)
    apply andb_true_iff in Hb. destruct Hb as [Hb Hj]. apply andb_true_iff in Hb. destruct Hb as [Hs _].
    apply andb_true_iff in Hj. destruct Hj as [Hsj _]. pose proof (qend_closer c Hq) as Hc.
    set (L := List.length (render_steps i)). set (Lj := List.length (render_steps j)).
    assert (Hgen : forall c1 act, (c1 = 33 /\ act = 29%nat \/ c1 = 61 /\ act = 28%nat) ->
              evG (PRef 35) (64 :: render_steps i ++ c1 :: 61 :: 36 :: render_steps j ++ c :: t) pos
                  (POk (c :: t) (pos + (1 + L + 2 + (1 + Lj)))
                       (left43_tokens pos i ++ right43_tokens (pos + 1 + L + 2) j ++ [TAct act] ++
                        [TText pos (pos + (1 + L + 2 + (1 + Lj))); TAct 26]))).
    { intros c1 act Hcase.
      assert (Hc1 : closer c1 /\ c1 <> 32) by (destruct Hcase as [[E _]|[E _]]; subst c1; (split; [unfold closer; repeat split; try reflexivity; discriminate|discriminate])).
      destruct Hc1 as [Hc1 Hc32].
      assert (E43 := ev_rule43_c i c1 (61 :: 36 :: render_steps j ++ c :: t) pos Hs Hc1).
      assert (Eright : evG (PSeq (PRef 58) (PSeq (PRef 40) (PAct act))) (36 :: render_steps j ++ c :: t) (pos + 1 + L + 2)
                           (POk (c :: t) (pos + 1 + L + 2 + 1 + Lj) (right43_tokens (pos + 1 + L + 2) j ++ [TAct act]))).
      { eapply ev_conv.
        - eapply ev_seq_ok; [apply ev_space_stop; discriminate| |reflexivity].
          eapply ev_seq_ok; [|apply ev_act|reflexivity].
          eapply ev_ref; [reflexivity|]. apply ev_alt_r; [apply ev_seq_fail; apply ev_rule42_dollar|]. apply (ev_rule43_root j c t _ Hsj Hc).
        - cbn [app]. reflexivity. }
      destruct Hcase as [[E1 E2]|[E1 E2]]; subst c1 act.
      - eapply ev_conv.
        + eapply ev_ref; [reflexivity|].
          apply ev_alt_r; [apply ev_seq_fail; eapply ev_ref; [reflexivity|]; apply ev_seq_fail; apply (ev_lit_fail G [40]); reflexivity|].
          apply ev_alt_l. eapply ev_seq_ok; [apply ev_cap|apply ev_act|reflexivity].
          eapply ev_ref; [reflexivity|]. apply ev_alt_l.
          eapply ev_seq_ok; [eapply ev_ref; [reflexivity|]; apply ev_alt_r; [apply ev_seq_fail; apply ev_rule42_at|exact E43]| |reflexivity].
          eapply ev_seq_ok; [apply ev_space_stop; exact Hc32| |reflexivity].
          apply ev_alt_r; [apply ev_seq_fail; apply (ev_lit_fail G [61; 61]); reflexivity|].
          eapply ev_seq_ok; [apply (ev_lit_ok G [33; 61]); reflexivity|exact Eright|reflexivity].
        + fold L Lj. cbn [List.length Nat.add]. f_equal; try lia.
          replace (pos + 1 + L + 2 + 1 + Lj)%nat with (pos + (1 + L + 2 + (1 + Lj)))%nat by lia.
          repeat (progress (cbn [app]) || rewrite <- app_assoc || rewrite app_nil_r). reflexivity.
      - eapply ev_conv.
        + eapply ev_ref; [reflexivity|].
          apply ev_alt_r; [apply ev_seq_fail; eapply ev_ref; [reflexivity|]; apply ev_seq_fail; apply (ev_lit_fail G [40]); reflexivity|].
          apply ev_alt_l. eapply ev_seq_ok; [apply ev_cap|apply ev_act|reflexivity].
          eapply ev_ref; [reflexivity|]. apply ev_alt_l.
          eapply ev_seq_ok; [eapply ev_ref; [reflexivity|]; apply ev_alt_r; [apply ev_seq_fail; apply ev_rule42_at|exact E43]| |reflexivity].
          eapply ev_seq_ok; [apply ev_space_stop; exact Hc32| |reflexivity].
          apply ev_alt_l. eapply ev_seq_ok; [apply (ev_lit_ok G [61; 61]); reflexivity|exact Eright|reflexivity].
        + fold L Lj. cbn [List.length Nat.add]. f_equal; try lia.
          replace (pos + 1 + L + 2 + 1 + Lj)%nat with (pos + (1 + L + 2 + (1 + Lj)))%nat by lia.
          repeat (progress (cbn [app]) || rewrite <- app_assoc || rewrite app_nil_r). reflexivity. }
    destruct ne.
    + replace (64 :: (render_steps i ++ [33; 61] ++ 36 :: render_steps j) ++ c :: t) with (64 :: render_steps i ++ 33 :: 61 :: 36 :: render_steps j ++ c :: t)
        by (cbn [app]; rewrite <- !app_assoc; reflexivity).
      apply (Hgen 33 29%nat). left. split; reflexivity.
    + replace (64 :: (render_steps i ++ [61; 61] ++ 36 :: render_steps j) ++ c :: t) with (64 :: render_steps i ++ 61 :: 61 :: 36 :: render_steps j ++ c :: t)
        by (cbn [app]; rewrite <- !app_assoc; reflexivity).
      apply (Hgen 61 28%nat). right. split; reflexivity.
  - (* @ steps =~ /body/ *)
    apply andb_true_iff in Hb. destruct Hb as [Hb Hre]. apply andb_true_iff in Hb. destruct Hb as [Hs _].
    replace (64 :: (render_steps i ++ 61 :: 126 :: 47 :: body ++ [47]) ++ c :: t) with (64 :: render_steps i ++ 61 :: 126 :: 47 :: body ++ 47 :: c :: t)
      by (repeat (progress (cbn [app]) || rewrite <- app_assoc); reflexivity).
    eapply ev_conv.
    + eapply ev_ref; [reflexivity|].
      apply ev_alt_r; [apply ev_seq_fail; eapply ev_ref; [reflexivity|]; apply ev_seq_fail; apply (ev_lit_fail G [40]); reflexivity|].
      apply ev_alt_l. eapply ev_seq_ok; [apply ev_cap; apply (ev_rule39_rx i body c t pos Hs Hre)|apply ev_act|reflexivity].
    + f_equal; try lia.
      replace (pos + 1 + List.length (render_steps i) + 3 + List.length body + 1)%nat
        with (pos + (1 + List.length (render_steps i) + 3 + List.length body + 1))%nat by lia.
      rewrite <- !app_assoc. reflexivity.
  - (* number OP @ steps *)
    apply andb_true_iff in Hb. destruct Hb as [Hb Hl]. apply andb_true_iff in Hb. destruct Hb as [Hs _].
    replace ((lit ++ op_text o ++ 64 :: render_steps i) ++ c :: t) with (lit ++ op_text o ++ 64 :: render_steps i ++ c :: t)
      by (rewrite <- !app_assoc; cbn [app]; rewrite <- ?app_assoc; reflexivity).
    assert (H40 : strip_prefix [40] (lit ++ op_text o ++ 64 :: render_steps i ++ c :: t) = None).
    { destruct (lit_head lit Hl) as (c1 & r & E & _ & _ & Hsd). rewrite E. cbn [app strip_prefix].
      destruct (40 =? c1) eqn:E40; [|reflexivity]. apply N.eqb_eq in E40. subst c1. destruct Hsd as [H|H]; discriminate H. }
    eapply ev_conv.
    + eapply ev_ref; [reflexivity|].
      apply ev_alt_r; [apply ev_seq_fail; eapply ev_ref; [reflexivity|]; apply ev_seq_fail; apply (ev_lit_fail G [40]); exact H40|].
      apply ev_alt_l. eapply ev_seq_ok; [apply ev_cap; apply (ev_rule39_lcmp i lit t c Hq Hs Hl o pos)|apply ev_act|reflexivity].
    + f_equal; try lia.
      replace (pos + List.length lit + List.length (op_text o) + 1 + List.length (render_steps i))%nat
        with (pos + (List.length lit + List.length (op_text o) + 1 + List.length (render_steps i)))%nat by lia.
      rewrite <- !app_assoc. reflexivity.
  - (* 'text' == @ steps, true != @ steps, null == @ steps *)
    apply andb_true_iff in Hb. destruct Hb as [Hb Hl]. apply andb_true_iff in Hb. destruct Hb as [Hs _].
    set (L := List.length (render_steps i)). set (M := List.length (litv_text l)).
    destruct (litv_head l Hl) as (x & xr & Ex & Hx32 & Hxs & Hxd).
    assert (H40 : forall r0, strip_prefix [40] (litv_text l ++ r0) = None).
    { intros r0. rewrite Ex. cbn [app strip_prefix]. destruct (40 =? x) eqn:E40; [|reflexivity]. apply N.eqb_eq in E40. subst x.
      destruct l as [q body|b0 sp|sp]; cbn [litv_text] in Ex.
      - cbn [litv_ok] in Hl. apply andb_true_iff in Hl. destruct Hl as [Hq0 _]. inversion Ex; subst q. discriminate Hq0.
      - destruct b0; destruct sp as [|[|sp]]; discriminate Ex.
      - destruct sp as [|[|sp]]; discriminate Ex. }
    assert (Hgen : forall c1 act, (c1 = 33 /\ act = 29%nat \/ c1 = 61 /\ act = 28%nat) ->
              evG (PRef 35) (litv_text l ++ c1 :: 61 :: 64 :: render_steps i ++ c :: t) pos
                  (POk (c :: t) (pos + (M + 2 + 1 + L))
                       (litv_tokens pos l ++ [TAct 35] ++ left43_tokens (pos + M + 2) i ++ [TAct act] ++ [TText pos (pos + (M + 2 + 1 + L)); TAct 26]))).
    { intros c1 act Hcase.
      assert (Hc32 : c1 <> 32) by (destruct Hcase as [[E _]|[E _]]; subst c1; discriminate).
      assert (Eright : evG (PSeq (PRef 58) (PSeq (PRef 40) (PAct act))) (64 :: render_steps i ++ c :: t) (pos + M + 2)
                           (POk (c :: t) (pos + M + 2 + 1 + L) (left43_tokens (pos + M + 2) i ++ [TAct act]))).
      { eapply ev_conv.
        - eapply ev_seq_ok; [apply ev_space_stop; discriminate| |reflexivity].
          eapply ev_seq_ok; [apply (rpath40 i t c Hq Hs)|apply ev_act|reflexivity].
        - cbn [app]. reflexivity. }
      assert (Eleft : evG (PRef 40) (litv_text l ++ c1 :: 61 :: 64 :: render_steps i ++ c :: t) pos
                          (POk (c1 :: 61 :: 64 :: render_steps i ++ c :: t) (pos + M) (litv_tokens pos l ++ [TAct 35]))).
      { eapply ev_ref; [reflexivity|]. apply ev_alt_l. eapply ev_seq_ok; [apply (ev_rule42_litv l c1 _ pos Hl)|apply ev_act|reflexivity]. }
      destruct Hcase as [[E1 E2]|[E1 E2]]; subst c1 act.
      - eapply ev_conv.
        + eapply ev_ref; [reflexivity|].
          apply ev_alt_r; [apply ev_seq_fail; eapply ev_ref; [reflexivity|]; apply ev_seq_fail; apply (ev_lit_fail G [40]); apply H40|].
          apply ev_alt_l. eapply ev_seq_ok; [apply ev_cap|apply ev_act|reflexivity].
          eapply ev_ref; [reflexivity|]. apply ev_alt_l.
          eapply ev_seq_ok; [exact Eleft| |reflexivity].
          eapply ev_seq_ok; [apply ev_space_stop; exact Hc32| |reflexivity].
          apply ev_alt_r; [apply ev_seq_fail; apply (ev_lit_fail G [61; 61]); reflexivity|].
          eapply ev_seq_ok; [apply (ev_lit_ok G [33; 61]); reflexivity|exact Eright|reflexivity].
        + cbn [List.length Nat.add]. f_equal; try lia.
          replace (pos + M + 2 + 1 + L)%nat with (pos + (M + 2 + 1 + L))%nat by lia.
          repeat (progress (cbn [app]) || rewrite <- app_assoc || rewrite app_nil_r). reflexivity.
      - eapply ev_conv.
        + eapply ev_ref; [reflexivity|].
          apply ev_alt_r; [apply ev_seq_fail; eapply ev_ref; [reflexivity|]; apply ev_seq_fail; apply (ev_lit_fail G [40]); apply H40|].
          apply ev_alt_l. eapply ev_seq_ok; [apply ev_cap|apply ev_act|reflexivity].
          eapply ev_ref; [reflexivity|]. apply ev_alt_l.
          eapply ev_seq_ok; [exact Eleft| |reflexivity].
          eapply ev_seq_ok; [apply ev_space_stop; exact Hc32| |reflexivity].
          apply ev_alt_l.
          eapply ev_seq_ok; [apply (ev_lit_ok G [61; 61]); reflexivity|exact Eright|reflexivity].
        + cbn [List.length Nat.add]. f_equal; try lia.
          replace (pos + M + 2 + 1 + L)%nat with (pos + (M + 2 + 1 + L))%nat by lia.
          repeat (progress (cbn [app]) || rewrite <- app_assoc || rewrite app_nil_r). reflexivity. }
    fold L M. destruct ne.
    + replace ((litv_text l ++ [33; 61] ++ 64 :: render_steps i) ++ c :: t) with (litv_text l ++ 33 :: 61 :: 64 :: render_steps i ++ c :: t)
        by (rewrite <- !app_assoc; cbn [app]; rewrite <- ?app_assoc; reflexivity).
      apply (Hgen 33 29%nat). left. split; reflexivity.
    + replace ((litv_text l ++ [61; 61] ++ 64 :: render_steps i) ++ c :: t) with (litv_text l ++ 61 :: 61 :: 64 :: render_steps i ++ c :: t)
        by (rewrite <- !app_assoc; cbn [app]; rewrite <- ?app_assoc; reflexivity).
      apply (Hgen 61 28%nat). right. split; reflexivity.
  - (* $ steps OP @ steps *)
    apply andb_true_iff in Hb. destruct Hb as [Hb Hj]. apply andb_true_iff in Hb. destruct Hb as [Hs _]. apply andb_true_iff in Hj. destruct Hj as [Hsj _].
    replace (36 :: (render_steps j ++ op_text o ++ 64 :: render_steps i) ++ c :: t) with (36 :: render_steps j ++ op_text o ++ 64 :: render_steps i ++ c :: t)
      by (rewrite <- !app_assoc; cbn [app]; rewrite <- ?app_assoc; reflexivity).
    eapply ev_conv.
    + eapply ev_ref; [reflexivity|].
      apply ev_alt_r; [apply ev_seq_fail; eapply ev_ref; [reflexivity|]; apply ev_seq_fail; apply (ev_lit_fail G [40]); reflexivity|].
      apply ev_alt_l. eapply ev_seq_ok; [apply ev_cap; apply (ev_rule39_rl i j t c Hq Hs Hsj o pos)|apply ev_act|reflexivity].
    + f_equal; try lia.
      replace (pos + 1 + List.length (render_steps j) + List.length (op_text o) + 1 + List.length (render_steps i))%nat
        with (pos + (1 + List.length (render_steps j) + List.length (op_text o) + 1 + List.length (render_steps i)))%nat by lia.
      rewrite <- !app_assoc. reflexivity.
Qed.

(* ---------- conjunctions ---------- *)
Fixpoint and_rest (p : nat) (bs : list bq) : list token :=
  match bs with [] => [] | x :: r => bq_tokens (p + 2) x ++ [TAct 25] ++ and_rest (p + 2 + List.length (bq_text x)) r end.
Definition and_tokens (p : nat) (c : list bq) : list token :=
  match c with [] => [] | b :: bs => bq_tokens p b ++ and_rest (p + List.length (bq_text b)) bs end.
Definition and_tail (bs : list bq) : list N := flat_map (fun x => [38; 38] ++ bq_text x) bs.

Definition cend (c : N) : Prop := c = 41 \/ c = 124.
Lemma cend_qend c : cend c -> qend c.
Proof. intros [E|E]; subst c; unfold qend; auto. Qed.
Lemma and_tail_head bs c t : cend c -> exists c' t', and_tail bs ++ c :: t = c' :: t' /\ qend c'.
Proof. intros Hc. destruct bs as [|x r]; cbn [and_tail flat_map app]; eexists _, _; (split; [reflexivity|]); [apply cend_qend; exact Hc|right; left; reflexivity]. Qed.

Lemma ev_and_star bs c t : forallb bq_ok bs = true -> cend c -> forall pos,
  evG (PStar (PSeq (PRef 37) (PSeq (PRef 35) (PAct 25)))) (and_tail bs ++ c :: t) pos (POk (c :: t) (pos + List.length (and_tail bs)) (and_rest pos bs)).
Proof.
  intros Hs Hc. induction bs as [|x r IH]; intros pos.
  - cbn [and_tail flat_map app List.length and_rest]. eapply ev_conv.
    + apply ev_star_stop. apply ev_seq_fail. eapply ev_ref; [reflexivity|].
      eapply ev_seq_fail2; [apply ev_space_stop; destruct Hc as [E|E]; subst c; discriminate|].
      apply ev_seq_fail. apply (ev_lit_fail G [38; 38]). destruct Hc as [E|E]; subst c; reflexivity.
    + f_equal. lia.
  - cbn [forallb] in Hs. apply andb_true_iff in Hs. destruct Hs as [H1 H2].
    cbn [and_tail flat_map and_rest]. fold (and_tail r). rewrite <- !app_assoc. cbn [app].
    destruct (and_tail_head r c t Hc) as (c' & t' & Eh & Hq'). destruct (bq_head x H1) as (x0 & xr & Ex & Hx0).
    assert (E1 : evG (PSeq (PRef 37) (PSeq (PRef 35) (PAct 25))) (38 :: 38 :: bq_text x ++ and_tail r ++ c :: t) pos
                     (POk (and_tail r ++ c :: t) (pos + 2 + List.length (bq_text x)) (bq_tokens (pos + 2) x ++ [TAct 25]))).
    { eapply ev_conv.
      - eapply ev_seq_ok; [| |reflexivity].
        + eapply ev_ref; [reflexivity|].
          eapply ev_seq_ok; [apply ev_space_stop; discriminate| |reflexivity].
          eapply ev_seq_ok; [apply (ev_lit_ok G [38; 38]); cbn [strip_prefix]; rewrite !N.eqb_refl; reflexivity| |reflexivity].
          assert (Esp : forall q rest, evG (PRef 58) (bq_text x ++ rest) q (POk (bq_text x ++ rest) q []))
            by (intros q rest; rewrite Ex; cbn [app]; apply ev_space_stop; exact Hx0).
          apply Esp.
        + rewrite Eh. eapply ev_seq_ok; [apply (ev35_bq x c' t' _ H1 Hq')|apply ev_act|reflexivity].
      - rewrite Eh. cbn [List.length app Nat.add]. reflexivity. }
    assert (Hlen : (pos + 2 + List.length (bq_text x) <> pos)%nat) by lia.
    pose proof (ev_star_step G _ _ _ _ _ _ _ _ _ E1 Hlen (IH H2 (pos + 2 + List.length (bq_text x))%nat)) as E2.
    eapply ev_conv; [exact E2|]. cbn [List.length]. rewrite !app_length. cbn [List.length]. f_equal; try lia. rewrite <- app_assoc. reflexivity.
Qed.

Lemma and_text_len b bs : List.length (and_text (b :: bs)) = (List.length (bq_text b) + List.length (and_tail bs))%nat.
Proof. cbn [and_text]. rewrite app_length. reflexivity. Qed.

Lemma ev34_conj b bs c t pos : forallb bq_ok (b :: bs) = true -> cend c ->
  evG (PRef 34) (and_text (b :: bs) ++ c :: t) pos (POk (c :: t) (pos + List.length (and_text (b :: bs))) (and_tokens pos (b :: bs))).
Proof.
  intros Hs Hc. cbn [forallb] in Hs. apply andb_true_iff in Hs. destruct Hs as [H1 H2].
  rewrite and_text_len. cbn [and_text and_tokens]. fold (and_tail bs). rewrite <- app_assoc.
  destruct (and_tail_head bs c t Hc) as (c' & t' & Eh & Hq').
  eapply ev_conv.
  - eapply ev_ref; [reflexivity|].
    eapply ev_seq_ok; [rewrite Eh; apply (ev35_bq b c' t' pos H1 Hq')| |reflexivity].
    rewrite <- Eh. apply (ev_and_star bs c t H2 Hc).
  - f_equal. lia.
Qed.

(* ---------- disjunctions ---------- *)
Definition conj_ok (c : list bq) : bool := match c with [] => false | _ :: _ => forallb bq_ok c end.
Fixpoint or_rest (p : nat) (cs : list (list bq)) : list token :=
  match cs with [] => [] | x :: r => and_tokens (p + 2) x ++ [TAct 24] ++ or_rest (p + 2 + List.length (and_text x)) r end.
Definition q_tokens (p : nat) (d : list (list bq)) : list token :=
  match d with [] => [] | c :: cs => and_tokens p c ++ or_rest (p + List.length (and_text c)) cs end.
Definition or_tail (cs : list (list bq)) : list N := flat_map (fun x => [124; 124] ++ and_text x) cs.

Lemma or_tail_head cs t : exists c' t', or_tail cs ++ 41 :: t = c' :: t' /\ cend c'.
Proof. destruct cs as [|x r]; cbn [or_tail flat_map app]; eexists _, _; (split; [reflexivity|]); [left|right]; reflexivity. Qed.
Lemma and_text_head c : conj_ok c = true -> exists x r, and_text c = x :: r /\ x <> 32.
Proof.
  destruct c as [|b bs]; [discriminate|]. intros Hc. cbn [conj_ok forallb] in Hc. apply andb_true_iff in Hc. destruct (bq_head b (proj1 Hc)) as (x & r & E & H). cbn [and_text]. rewrite E. cbn [app]. eexists _, _. split; [reflexivity|exact H].
Qed.

Lemma ev_or_star cs t : forallb conj_ok cs = true -> forall pos,
  evG (PStar (PSeq (PRef 36) (PSeq (PRef 34) (PAct 24)))) (or_tail cs ++ 41 :: t) pos (POk (41 :: t) (pos + List.length (or_tail cs)) (or_rest pos cs)).
Proof.
  intros Hs. induction cs as [|x r IH]; intros pos.
  - cbn [or_tail flat_map app List.length or_rest]. eapply ev_conv.
    + apply ev_star_stop. apply ev_seq_fail. eapply ev_ref; [reflexivity|].
      eapply ev_seq_fail2; [apply ev_space_stop; discriminate|]. apply ev_seq_fail. apply (ev_lit_fail G [124; 124]). reflexivity.
    + f_equal. lia.
  - cbn [forallb] in Hs. apply andb_true_iff in Hs. destruct Hs as [H1 H2].
    cbn [or_tail flat_map or_rest]. fold (or_tail r). rewrite <- !app_assoc. cbn [app].
    destruct (or_tail_head r t) as (c' & t' & Eh & Hc'). destruct (and_text_head x H1) as (x0 & xr & Ex & Hx0).
    destruct x as [|b bs]; [discriminate H1|]. cbn [conj_ok] in H1.
    assert (E1 : evG (PSeq (PRef 36) (PSeq (PRef 34) (PAct 24))) (124 :: 124 :: and_text (b :: bs) ++ or_tail r ++ 41 :: t) pos
                     (POk (or_tail r ++ 41 :: t) (pos + 2 + List.length (and_text (b :: bs))) (and_tokens (pos + 2) (b :: bs) ++ [TAct 24]))).
    { eapply ev_conv.
      - eapply ev_seq_ok; [| |reflexivity].
        + eapply ev_ref; [reflexivity|].
          eapply ev_seq_ok; [apply ev_space_stop; discriminate| |reflexivity].
          eapply ev_seq_ok; [apply (ev_lit_ok G [124; 124]); cbn [strip_prefix]; rewrite !N.eqb_refl; reflexivity| |reflexivity].
          assert (Esp : forall q rest, evG (PRef 58) (and_text (b :: bs) ++ rest) q (POk (and_text (b :: bs) ++ rest) q []))
            by (intros q rest; rewrite Ex; cbn [app]; apply ev_space_stop; exact Hx0).
          apply Esp.
        + rewrite Eh. eapply ev_seq_ok; [apply (ev34_conj b bs c' t' _ H1 Hc')|apply ev_act|reflexivity].
      - rewrite Eh. cbn [List.length app Nat.add]. reflexivity. }
    assert (Hlen : (pos + 2 + List.length (and_text (b :: bs)) <> pos)%nat) by lia.
    pose proof (ev_star_step G _ _ _ _ _ _ _ _ _ E1 Hlen (IH H2 (pos + 2 + List.length (and_text (b :: bs)))%nat)) as E2.
    eapply ev_conv; [exact E2|]. cbn [List.length]. rewrite !app_length. cbn [List.length]. f_equal; try lia. rewrite <- app_assoc. reflexivity.
Qed.

Definition dnf_ok (d : list (list bq)) : bool := match d with [] => false | _ :: _ => forallb conj_ok d end.
Lemma q_text_len c cs : List.length (q_text (c :: cs)) = (List.length (and_text c) + List.length (or_tail cs))%nat.
Proof. cbn [q_text]. rewrite app_length. reflexivity. Qed.

Lemma ev33_dnf d t pos : dnf_ok d = true ->
  evG (PRef 33) (q_text d ++ 41 :: t) pos (POk (41 :: t) (pos + List.length (q_text d)) (q_tokens pos d)).
Proof.
  intros Hd. destruct d as [|c cs]; [discriminate|]. cbn [dnf_ok forallb] in Hd. apply andb_true_iff in Hd. destruct Hd as [H1 H2].
  rewrite q_text_len. cbn [q_text q_tokens]. fold (or_tail cs). rewrite <- app_assoc.
  destruct (or_tail_head cs t) as (c' & t' & Eh & Hc'). destruct c as [|b bs]; [discriminate H1|]. cbn [conj_ok] in H1.
  eapply ev_conv.
  - eapply ev_ref; [reflexivity|].
    eapply ev_seq_ok; [rewrite Eh; apply (ev34_conj b bs c' t' pos H1 Hc')| |reflexivity].
    rewrite <- Eh. apply (ev_or_star cs t H2).
  - f_equal. lia.
Qed.

(* from a query to the bracket *)
Lemma ev_rule7_of33 X r pos toks : (forall x0 r0, X = x0 :: r0 -> x0 <> 32) -> X <> [] ->
  evG (PRef 33) (X ++ 41 :: 93 :: r) (pos + 3) (POk (41 :: 93 :: r) (pos + 3 + List.length X) toks) ->
  evG (PRef 7) ([91; 63; 40] ++ X ++ [41; 93] ++ r) pos
      (POk r (pos + 5 + List.length X) (toks ++ [TAct 23; TText pos (pos + 5 + List.length X); TAct 7])).
Proof.
  intros Hx Hne E33. destruct X as [|x0 X']; [contradiction Hne; reflexivity|]. pose proof (Hx x0 X' eq_refl) as E0.
  eapply ev_ref; [reflexivity|].
  apply ev_alt_r; [apply ev_seq_fail; apply (ev_lit_fail G [46; 46]); reflexivity|].
  apply ev_alt_r; [apply ev_seq_fail; apply ev_cap_fail; apply ev_seq_fail; apply (ev_lit_fail G [46]); reflexivity|].
  cbn [app]. eapply ev_conv.
  - eapply ev_ref; [reflexivity|].
    eapply ev_seq_ok; [apply ev_cap|apply ev_act|reflexivity].
    eapply ev_seq_ok; [| |reflexivity].
    + eapply ev_ref; [reflexivity|]. eapply ev_seq_ok; [apply (ev_lit_ok G [91]); apply strip1_ok|apply ev_space_stop; discriminate|reflexivity].
    + eapply ev_seq_ok; [| |reflexivity].
      * apply ev_alt_r; [apply ev_rule15_q|].
        eapply ev_ref; [reflexivity|].
        apply ev_alt_r; [apply ev_rule23_q|].
        apply ev_alt_r; [eapply ev_ref; [reflexivity|]; apply ev_seq_fail; eapply ev_ref; [reflexivity|]; apply ev_seq_fail; apply (ev_lit_fail G [40]); reflexivity|].
        eapply ev_ref; [reflexivity|].
        eapply ev_seq_ok; [| |reflexivity].
        -- eapply ev_ref; [reflexivity|]. eapply ev_seq_ok; [apply (ev_lit_ok G [63; 40]); reflexivity|apply ev_space_stop; exact E0|reflexivity].
        -- eapply ev_seq_ok; [| |reflexivity].
           ++ cbn [app] in E33.
              assert (E33' : evG (PRef 33) (x0 :: X' ++ 41 :: 93 :: r) (pos + List.length [91] + List.length [63; 40])%nat
                                 (POk (41 :: 93 :: r) (pos + 3 + List.length (x0 :: X')) toks))
                by (replace (pos + List.length [91] + List.length [63; 40])%nat with (pos + 3)%nat by (cbn [List.length]; lia); exact E33).
              exact E33'.
           ++ eapply ev_seq_ok; [|apply ev_act|reflexivity].
              eapply ev_ref; [reflexivity|]. eapply ev_seq_ok; [apply ev_space_stop; discriminate|apply (ev_lit_ok G [41]); apply strip1_ok|reflexivity].
      * eapply ev_ref; [reflexivity|]. eapply ev_seq_ok; [apply ev_space_stop; discriminate|apply (ev_lit_ok G [93]); apply strip1_ok|reflexivity].
  - cbn [List.length app Nat.add]. f_equal; try lia.
    replace (pos + 3 + S (List.length X') + 1 + 1)%nat with (pos + 5 + S (List.length X'))%nat by lia.
    repeat (progress (cbn [app]) || rewrite <- app_assoc || rewrite app_nil_r). reflexivity.
Qed.

Definition fq_tokens (p : nat) (d : list (list bq)) : list token :=
  q_tokens (p + 3) d ++ [TAct 23; TText p (p + 5 + List.length (q_text d)); TAct 7].
Lemma fq_text_len d : List.length (fq_text d) = (5 + List.length (q_text d))%nat.
Proof. unfold fq_text. cbn [app List.length]. rewrite app_length. cbn [List.length]. lia. Qed.
Lemma q_text_head d : dnf_ok d = true -> exists x r, q_text d = x :: r /\ x <> 32.
Proof.
  destruct d as [|c cs]; [discriminate|]. cbn [dnf_ok forallb]. intros H. apply andb_true_iff in H. destruct H as [H1 _].
  destruct (and_text_head c H1) as (x & r & E & Hx). cbn [q_text]. rewrite E. cbn [app]. eexists _, _. split; [reflexivity|exact Hx].
Qed.

Lemma ev_rule7_fq d r pos : dnf_ok d = true ->
  evG (PRef 7) (fq_text d ++ r) pos (POk r (pos + List.length (fq_text d)) (fq_tokens pos d)).
Proof.
  intros Hd. destruct (q_text_head d Hd) as (x & xr & Ex & Hx).
  replace (fq_text d ++ r) with ([91; 63; 40] ++ q_text d ++ [41; 93] ++ r) by (unfold fq_text; cbn [app]; rewrite <- !app_assoc; reflexivity).
  eapply ev_conv; [apply (ev_rule7_of33 (q_text d) r pos (q_tokens (pos + 3) d))|].
  - intros x0 r0 E. rewrite Ex in E. inversion E; subst. exact Hx.
  - rewrite Ex. discriminate.
  - apply (ev33_dnf d (93 :: r) (pos + 3) Hd).
  - rewrite fq_text_len. unfold fq_tokens. f_equal. lia.
Qed.

(* ---------- the token replay ---------- *)
Section QueryExec.
  Variable cfg : config.
  Variable parse_float : string -> option num.
  Variable regex_ok : string -> bool.
  Notation execute := (execute cfg parse_float regex_ok).
  Notation exec_action := (exec_action cfg parse_float regex_ok).

  Definition qnum (lit : list N) : num := match parse_float (text_of lit) with Some f => f | None => Fin 0 0 end.
  Definition bq_okp (b : bq) : bool :=
    match b with BC _ _ lit | BCL lit _ _ => match parse_float (text_of lit) with Some _ => true | None => false end | BX _ body => regex_ok (text_of body) | _ => true end.
  Definition litv_vd (l : litv) : validator := match l with LStr _ _ => VdString | LBool _ _ => VdBool | LNull _ => VdNil end.
  Definition lit_cmp (i : list rstep) (l : litv) : query := QCmp (cmp_left cfg i) (CP (PqLit (litv_value l)) true) (CDirectEq (litv_vd l)).
  Definition bq_query (b : bq) : query :=
    match b with
    | BE i => QParam (filter_pq cfg i)
    | BN i => QNot (QParam (filter_pq cfg i))
    | BC i o lit => cmp_query cfg i o (qnum lit)
    | BL i ne l => if ne then QNot (lit_cmp i l) else lit_cmp i l
    | BRE j => QParam (root_pq cfg j)
    | BRN j => QNot (QParam (root_pq cfg j))
    | BCR i o j => QCmp (cmp_left cfg i) (CP (root_pq cfg j) true) (match o with OLt => CLt | OLe => CLe | OGt => CGt | _ => CGe end)
    | BPQ i ne j => let q := QCmp (cmp_left cfg i) (CP (root_pq cfg j) true) CDeepEq in if ne then QNot q else q
    | BX i body => rx_query cfg i body
    | BCL lit o i => cmp_query cfg i (mirror_op o) (qnum lit)
    | BLL l ne i => if ne then QNot (lit_cmp i l) else lit_cmp i l
    | BRL j o i => let l := cmp_left cfg i in let r := CP (root_pq cfg j) true in
                   match o with
                   | OEq => QCmp l r CDeepEq | ONe => QNot (QCmp l r CDeepEq)
                   | OLt => QCmp l r CGt | OLe => QCmp l r CGe | OGt => QCmp l r CLt | OGe => QCmp l r CLe
                   end
    end.

  Lemma unescape_plain q body : forallb (plain_for q) body = true -> unescape_cps body = body.
  Proof.
    induction body as [|x r IH]; [reflexivity|]. cbn [forallb]. intros H. apply andb_true_iff in H. destruct H as [H1 H2].
    unfold plain_for in H1. apply andb_true_iff in H1. destruct H1 as [_ H92]. apply negb_true_iff in H92.
    cbn [unescape_cps]. rewrite H92, (IH H2). reflexivity.
  Qed.

  (* the operand between saveParams and loadParams, whatever is on the stack *)
  Lemma exec_operand input p i rest ps toks cps b : forallb rstep_ok i = true -> skipn p input = 64 :: render_steps i ++ rest ->
    execute ([TAct 38] ++ inner_tokens p i ++ [TAct 39] ++ toks) input cps b (mk ps) =
    execute toks input (last_cps (inner_tokens p i) input cps) (last_begin (inner_tokens p i) b) (mk (ps ++ [IPQ (filter_pq cfg i); IBool false])).
  Proof.
    intros Hs Hin. set (sv0 := match ps with [] => [] | _ :: _ => [ps] end).
    cbn [app Actions.execute].
    assert (E38 : exec_action 38 cps b (mk ps) = AOk (with_saved sv0 (mk []))) by (destruct ps; reflexivity).
    rewrite E38. cbn [abind].
    rewrite (execute_under cfg parse_float regex_ok sv0 (inner_tokens p i) input cps b (mk []) _ ltac:(unfold inner_tokens; rewrite !frame_free_app, frame_free_steps; reflexivity)
               (exec_inner cfg parse_float regex_ok input p i rest cps b Hs Hin)).
    cbn [app Actions.execute].
    assert (E39 : forall c0 b0, exec_action 39 c0 b0 (with_saved sv0 (mk [INode (inner_root cfg i)])) =
                               AOk (mk (ps ++ [IPQ (filter_pq cfg i); IBool false]))).
    { intros c0 b0. cbn [Actions.exec_action].
      assert (El : load_params (with_saved sv0 (mk [INode (inner_root cfg i)])) = mk (ps ++ [INode (inner_root cfg i)])) by (destruct ps; reflexivity).
      rewrite El. unfold pop_node. rewrite pop_mk. cbn [abind]. rewrite inner_root_kind.
      unfold push, mk, with_params. cbn [params saved proot]. rewrite <- app_assoc. reflexivity. }
    rewrite E39. reflexivity.
  Qed.

  Lemma exec_bq input p b rest ps toks cps bg : bq_ok b = true -> bq_okp b = true -> skipn p input = bq_text b ++ rest ->
    exists cps' b', execute (bq_tokens p b ++ toks) input cps bg (mk ps) = execute toks input cps' b' (mk (ps ++ [IQuery (bq_query b)])).
  Proof.
    intros Hb Hp Hin. destruct b as [i|i|i o lit|i ne l|j|j|i o j|i ne j|i body|lit o i|l ne i|j o i]; cbn [bq_ok bq_okp bq_text bq_tokens bq_query] in *.
    - set (L := List.length (render_steps i)).
      replace (([TAct 38] ++ inner_tokens p i ++ [TAct 39; TText p (p + 1 + L); TAct 27]) ++ toks)
        with ([TAct 38] ++ inner_tokens p i ++ [TAct 39] ++ ([TText p (p + 1 + L); TAct 27] ++ toks))
        by (repeat (progress (cbn [app]) || rewrite <- app_assoc); reflexivity).
      cbn [app] in Hin. rewrite (exec_operand input p i rest ps _ cps bg Hb Hin). cbn [app Actions.execute].
      assert (Ec : sub_list input p (p + 1 + L) = 64 :: render_steps i).
      { pose proof (sub_at input p 0 [] (64 :: render_steps i) rest) as H. rewrite Nat.add_0_r in H. cbn [List.length] in H. fold L in H.
        replace (p + S L)%nat with (p + 1 + L)%nat in H by lia. apply H; [exact Hin|reflexivity]. }
      rewrite Ec.
      assert (E27 : forall b0, exec_action 27 (64 :: render_steps i) b0 (mk (ps ++ [IPQ (filter_pq cfg i); IBool false])) =
                               AOk (mk (ps ++ [IQuery (QParam (filter_pq cfg i))]))).
      { intros b0. cbn [Actions.exec_action].
        change (ps ++ [IPQ (filter_pq cfg i); IBool false]) with (ps ++ [IPQ (filter_pq cfg i)] ++ [IBool false]). rewrite app_assoc, pop_mk. cbn [abind].
        unfold pop_query. rewrite pop_mk. cbn [abind]. rewrite first_byte_at. reflexivity. }
      rewrite E27. cbn [abind]. eexists _, _. reflexivity.
    - set (L := List.length (render_steps i)).
      replace (([TAct 38] ++ inner_tokens (p + 1) i ++ [TAct 39; TText p (p + 2 + L); TAct 27]) ++ toks)
        with ([TAct 38] ++ inner_tokens (p + 1) i ++ [TAct 39] ++ ([TText p (p + 2 + L); TAct 27] ++ toks))
        by (repeat (progress (cbn [app]) || rewrite <- app_assoc); reflexivity).
      cbn [app] in Hin.
      assert (Hin1 : skipn (p + 1) input = 64 :: render_steps i ++ rest) by (apply (skipn_next input p [33] _ Hin)).
      rewrite (exec_operand input (p + 1) i rest ps _ cps bg Hb Hin1). cbn [app Actions.execute].
      assert (Ec : sub_list input p (p + 2 + L) = 33 :: 64 :: render_steps i).
      { pose proof (sub_at input p 0 [] (33 :: 64 :: render_steps i) rest) as H. rewrite Nat.add_0_r in H. cbn [List.length] in H. fold L in H.
        replace (p + S (S L))%nat with (p + 2 + L)%nat in H by lia. apply H; [exact Hin|reflexivity]. }
      rewrite Ec.
      assert (E27 : forall b0, exec_action 27 (33 :: 64 :: render_steps i) b0 (mk (ps ++ [IPQ (filter_pq cfg i); IBool false])) =
                               AOk (mk (ps ++ [IQuery (QNot (QParam (filter_pq cfg i)))]))).
      { intros b0. cbn [Actions.exec_action].
        change (ps ++ [IPQ (filter_pq cfg i); IBool false]) with (ps ++ [IPQ (filter_pq cfg i)] ++ [IBool false]). rewrite app_assoc, pop_mk. cbn [abind].
        unfold pop_query. rewrite pop_mk. cbn [abind]. reflexivity. }
      rewrite E27. cbn [abind]. eexists _, _. reflexivity.
    - apply andb_true_iff in Hb. destruct Hb as [Hb Hl]. apply andb_true_iff in Hb. destruct Hb as [Hs Hvg]. apply negb_true_iff in Hvg.
      destruct (parse_float (text_of lit)) as [f|] eqn:Hpf; [|discriminate Hp].
      assert (Eq : qnum lit = f) by (unfold qnum; rewrite Hpf; reflexivity). rewrite Eq.
      set (L := List.length (render_steps i)). set (K := List.length (op_text o)). set (M := List.length lit).
      unfold cmp39_tokens, left43_tokens. cbv zeta. fold L K M.
      assert (Hin' : skipn p input = 64 :: render_steps i ++ op_text o ++ lit ++ rest) by (rewrite Hin; cbn [app]; rewrite <- !app_assoc; reflexivity).
      replace (((([TAct 38] ++ inner_tokens p i ++ [TAct 39; TText p (p + 1 + L); TAct 37]) ++
                [TText (p + 1 + L + K) (p + 1 + L + K + M); TAct 40; TAct (lit_act o); TAct (op_act o)]) ++ [TText p (p + (1 + L + K + M)); TAct 26]) ++ toks)
        with ([TAct 38] ++ inner_tokens p i ++ [TAct 39] ++
              ([TText p (p + 1 + L); TAct 37; TText (p + 1 + L + K) (p + 1 + L + K + M); TAct 40; TAct (lit_act o); TAct (op_act o); TText p (p + (1 + L + K + M)); TAct 26] ++ toks))
        by (repeat (progress (cbn [app]) || rewrite <- app_assoc); reflexivity).
      rewrite (exec_operand input p i _ ps _ cps bg Hs Hin'). cbn [app Actions.execute].
      assert (E37 : forall c0 b0, exec_action 37 c0 b0 (mk (ps ++ [IPQ (filter_pq cfg i); IBool false])) = AOk (mk (ps ++ [ICParam (cmp_left cfg i)]))).
      { intros c0 b0. cbn [Actions.exec_action].
        change (ps ++ [IPQ (filter_pq cfg i); IBool false]) with (ps ++ [IPQ (filter_pq cfg i)] ++ [IBool false]). rewrite app_assoc, pop_mk. cbn [abind].
        rewrite pop_mk. cbn [abind]. unfold cmp_left, filter_pq. rewrite (operand_vg cfg), Hvg. reflexivity. }
      rewrite E37. cbn [abind].
      assert (Elit : sub_list input (p + 1 + L + K) (p + 1 + L + K + M) = lit).
      { pose proof (sub_at input p (1 + L + K) ((64 :: render_steps i) ++ op_text o) lit rest) as H.
        replace (p + (1 + L + K))%nat with (p + 1 + L + K)%nat in H by lia. apply H.
        - rewrite Hin'. cbn [app]. rewrite <- !app_assoc. reflexivity.
        - unfold L, K. cbn [List.length app]. rewrite !app_length. lia. }
      rewrite Elit.
      assert (E40 : forall b0 st, exec_action 40 lit b0 st = AOk (push (INum f) st)) by (intros b0 st; cbn [Actions.exec_action]; rewrite Hpf; reflexivity).
      rewrite E40. cbn [abind].
      change (push (INum f) (mk (ps ++ [ICParam (cmp_left cfg i)]))) with (mk ((ps ++ [ICParam (cmp_left cfg i)]) ++ [INum f])).
      assert (Elt : forall c0 b0, exec_action (lit_act o) c0 b0 (mk ((ps ++ [ICParam (cmp_left cfg i)]) ++ [INum f])) =
                                 AOk (mk ((ps ++ [ICParam (cmp_left cfg i)]) ++ [ICParam (cmp_right f)]))).
      { intros c0 b0. destruct o; cbn [lit_act Actions.exec_action]; rewrite pop_mk; reflexivity. }
      rewrite Elt. cbn [abind].
      assert (Eop : forall c0 b0, exec_action (op_act o) c0 b0 (mk ((ps ++ [ICParam (cmp_left cfg i)]) ++ [ICParam (cmp_right f)])) =
                                 AOk (mk (ps ++ [IQuery (cmp_query cfg i o f)]))).
      { intros c0 b0. destruct o; cbn [op_act Actions.exec_action]; unfold two_operands, pop_cparam; rewrite pop_mk; cbn [abind]; rewrite pop_mk; cbn [abind]; try reflexivity.
        unfold pop_query. change (push_compare_eq (cmp_left cfg i) (cmp_right f) (mk ps)) with (mk (ps ++ [IQuery (QCmp (cmp_left cfg i) (cmp_right f) (CDirectEq VdNumeric))])).
        rewrite pop_mk. reflexivity. }
      rewrite Eop. cbn [abind].
      assert (E26 : forall c0 b0, exec_action 26 c0 b0 (mk (ps ++ [IQuery (cmp_query cfg i o f)])) = AOk (mk (ps ++ [IQuery (cmp_query cfg i o f)]))).
      { intros c0 b0. cbn [Actions.exec_action]. rewrite pop_mk. cbn [abind]. destruct o; reflexivity. }
      rewrite E26. cbn [abind]. eexists _, _. reflexivity.
    - apply andb_true_iff in Hb. destruct Hb as [Hb Hl]. apply andb_true_iff in Hb. destruct Hb as [Hs Hvg]. apply negb_true_iff in Hvg.
      set (L := List.length (render_steps i)). set (M := List.length (litv_text l)).
      unfold left43_tokens. fold L M.
      assert (Hin' : skipn p input = 64 :: render_steps i ++ (if ne then [33; 61] else [61; 61]) ++ litv_text l ++ rest) by (rewrite Hin; cbn [app]; rewrite <- !app_assoc; reflexivity).
      replace ((([TAct 38] ++ inner_tokens p i ++ [TAct 39; TText p (p + 1 + L); TAct 37]) ++
                litv_tokens (p + 1 + L + 2) l ++ [TAct 35; TAct (if ne then 29%nat else 28%nat)] ++ [TText p (p + (1 + L + 2 + M)); TAct 26]) ++ toks)
        with ([TAct 38] ++ inner_tokens p i ++ [TAct 39] ++
              ([TText p (p + 1 + L); TAct 37] ++ litv_tokens (p + 1 + L + 2) l ++ [TAct 35; TAct (if ne then 29%nat else 28%nat); TText p (p + (1 + L + 2 + M)); TAct 26] ++ toks))
        by (repeat (progress (cbn [app]) || rewrite <- app_assoc); reflexivity).
      rewrite (exec_operand input p i _ ps _ cps bg Hs Hin'). cbn [app Actions.execute].
      assert (E37 : forall c0 b0, exec_action 37 c0 b0 (mk (ps ++ [IPQ (filter_pq cfg i); IBool false])) = AOk (mk (ps ++ [ICParam (cmp_left cfg i)]))).
      { intros c0 b0. cbn [Actions.exec_action].
        change (ps ++ [IPQ (filter_pq cfg i); IBool false]) with (ps ++ [IPQ (filter_pq cfg i)] ++ [IBool false]). rewrite app_assoc, pop_mk. cbn [abind].
        rewrite pop_mk. cbn [abind]. unfold cmp_left, filter_pq. rewrite (operand_vg cfg), Hvg. reflexivity. }
      rewrite E37. cbn [abind].
      (* the literal, then action 35 *)
      assert (Elit : exists c1 b1, forall toks1,
                execute (litv_tokens (p + 1 + L + 2) l ++ TAct 35 :: toks1) input (sub_list input p (p + 1 + L)) p (mk (ps ++ [ICParam (cmp_left cfg i)])) =
                execute toks1 input c1 b1 (mk ((ps ++ [ICParam (cmp_left cfg i)]) ++ [ICParam (CP (PqLit (litv_value l)) true)]))).
      { destruct l as [q body|b0 sp|sp]; cbn [litv_tokens litv_value app Actions.execute].
        - assert (Eb : sub_list input (p + 1 + L + 2 + 1) (p + 1 + L + 2 + 1 + List.length body) = body).
          { pose proof (sub_at input p (1 + L + 2 + 1) ((64 :: render_steps i) ++ (if ne then [33; 61] else [61; 61]) ++ [q]) body ([q] ++ rest)) as H.
            replace (p + (1 + L + 2 + 1))%nat with (p + 1 + L + 2 + 1)%nat in H by lia. apply H.
            - rewrite Hin'. cbn [litv_text app]. rewrite <- !app_assoc. cbn [app]. reflexivity.
            - unfold L. cbn [List.length app]. rewrite !app_length. destruct ne; cbn [List.length]; lia. }
          rewrite Eb. cbn [litv_ok] in Hl. apply andb_true_iff in Hl. destruct Hl as [Hq Hbody].
          eexists _, _. intros toks1.
          assert (E4 : forall b1 st, exec_action (if q =? 39 then 43%nat else 44%nat) body b1 st = AOk (push (IStr (text_of (unescape_cps body))) st)).
          { intros b1 st. destruct (q =? 39); cbn [Actions.exec_action]; reflexivity. }
          rewrite E4. cbn [abind].
          change (push (IStr (text_of (unescape_cps body))) (mk (ps ++ [ICParam (cmp_left cfg i)]))) with (mk ((ps ++ [ICParam (cmp_left cfg i)]) ++ [IStr (text_of (unescape_cps body))])).
          cbn [Actions.exec_action]. rewrite pop_mk. cbn [abind literal_of]. reflexivity.
        - eexists _, _. intros toks1. destruct b0; cbn [litv_tokens app Actions.execute Actions.exec_action abind];
            (match goal with |- context [push ?x (mk ?l0)] => change (push x (mk l0)) with (mk (l0 ++ [x])) end); rewrite pop_mk; reflexivity.
        - eexists _, _. intros toks1. cbn [Actions.exec_action abind].
          (match goal with |- context [push ?x (mk ?l0)] => change (push x (mk l0)) with (mk (l0 ++ [x])) end). rewrite pop_mk. reflexivity. }
      destruct Elit as (c1 & b1 & Elit).
      change (litv_tokens (p + 1 + L + 2) l ++ [TAct 35; TAct (if ne then 29%nat else 28%nat); TText p (p + (1 + L + 2 + M)); TAct 26] ++ toks)
        with (litv_tokens (p + 1 + L + 2) l ++ TAct 35 :: ([TAct (if ne then 29%nat else 28%nat); TText p (p + (1 + L + 2 + M)); TAct 26] ++ toks)).
      rewrite Elit. cbn [app Actions.execute].
      assert (Eop : forall c0 b0, exec_action (if ne then 29%nat else 28%nat) c0 b0 (mk ((ps ++ [ICParam (cmp_left cfg i)]) ++ [ICParam (CP (PqLit (litv_value l)) true)])) =
                                 AOk (mk (ps ++ [IQuery (if ne then QNot (lit_cmp i l) else lit_cmp i l)]))).
      { intros c0 b0. assert (Epc : push_compare_eq (cmp_left cfg i) (CP (PqLit (litv_value l)) true) (mk ps) = mk (ps ++ [IQuery (lit_cmp i l)]))
          by (destruct l; reflexivity).
        destruct ne; cbn [Actions.exec_action]; unfold two_operands, pop_cparam; rewrite pop_mk; cbn [abind]; rewrite pop_mk; cbn [abind]; rewrite Epc; [|reflexivity].
        unfold pop_query. rewrite pop_mk. reflexivity. }
      rewrite Eop. cbn [abind].
      assert (E26 : forall c0 b0 q, (q = lit_cmp i l \/ q = QNot (lit_cmp i l)) -> exec_action 26 c0 b0 (mk (ps ++ [IQuery q])) = AOk (mk (ps ++ [IQuery q]))).
      { intros c0 b0 q [E|E]; subst q; cbn [Actions.exec_action]; rewrite pop_mk; reflexivity. }
      rewrite E26 by (destruct ne; auto). cbn [abind]. eexists _, _. reflexivity.
    - set (L := List.length (render_steps j)).
      replace (([TAct 38] ++ rtok p j ++ [TAct 39; TText p (p + 1 + L); TAct 27]) ++ toks)
        with ([TAct 38] ++ rtok p j ++ [TAct 39] ++ ([TText p (p + 1 + L); TAct 27] ++ toks))
        by (repeat (progress (cbn [app]) || rewrite <- app_assoc); reflexivity).
      cbn [app] in Hin. rewrite (exec_operand_root cfg parse_float regex_ok input p j rest ps _ cps bg Hb Hin). cbn [app Actions.execute].
      assert (Ec : sub_list input p (p + 1 + L) = 36 :: render_steps j).
      { pose proof (sub_at input p 0 [] (36 :: render_steps j) rest) as H. rewrite Nat.add_0_r in H. cbn [List.length] in H. fold L in H.
        replace (p + S L)%nat with (p + 1 + L)%nat in H by lia. apply H; [exact Hin|reflexivity]. }
      rewrite Ec.
      assert (E27 : forall b0, exec_action 27 (36 :: render_steps j) b0 (mk (ps ++ [IPQ (root_pq cfg j); IBool true])) =
                               AOk (mk (ps ++ [IQuery (QParam (root_pq cfg j))]))).
      { intros b0. cbn [Actions.exec_action].
        change (ps ++ [IPQ (root_pq cfg j); IBool true]) with (ps ++ [IPQ (root_pq cfg j)] ++ [IBool true]). rewrite app_assoc, pop_mk. cbn [abind].
        unfold pop_query. rewrite pop_mk. cbn [abind]. reflexivity. }
      rewrite E27. cbn [abind]. eexists _, _. reflexivity.
    - set (L := List.length (render_steps j)).
      replace (([TAct 38] ++ rtok (p + 1) j ++ [TAct 39; TText p (p + 2 + L); TAct 27]) ++ toks)
        with ([TAct 38] ++ rtok (p + 1) j ++ [TAct 39] ++ ([TText p (p + 2 + L); TAct 27] ++ toks))
        by (repeat (progress (cbn [app]) || rewrite <- app_assoc); reflexivity).
      cbn [app] in Hin.
      assert (Hin1 : skipn (p + 1) input = 36 :: render_steps j ++ rest) by (apply (skipn_next input p [33] _ Hin)).
      rewrite (exec_operand_root cfg parse_float regex_ok input (p + 1) j rest ps _ cps bg Hb Hin1). cbn [app Actions.execute].
      assert (Ec : sub_list input p (p + 2 + L) = 33 :: 36 :: render_steps j).
      { pose proof (sub_at input p 0 [] (33 :: 36 :: render_steps j) rest) as H. rewrite Nat.add_0_r in H. cbn [List.length] in H. fold L in H.
        replace (p + S (S L))%nat with (p + 2 + L)%nat in H by lia. apply H; [exact Hin|reflexivity]. }
      rewrite Ec.
      assert (E27 : forall b0, exec_action 27 (33 :: 36 :: render_steps j) b0 (mk (ps ++ [IPQ (root_pq cfg j); IBool true])) =
                               AOk (mk (ps ++ [IQuery (QNot (QParam (root_pq cfg j)))]))).
      { intros b0. cbn [Actions.exec_action].
        change (ps ++ [IPQ (root_pq cfg j); IBool true]) with (ps ++ [IPQ (root_pq cfg j)] ++ [IBool true]). rewrite app_assoc, pop_mk. cbn [abind].
        unfold pop_query. rewrite pop_mk. cbn [abind]. reflexivity. }
      rewrite E27. cbn [abind]. eexists _, _. reflexivity.
    - apply andb_true_iff in Hb. destruct Hb as [Hb Ho]. apply andb_true_iff in Hb. destruct Hb as [Hb Hj]. apply andb_true_iff in Hb. destruct Hb as [Hs Hvg].
      apply andb_true_iff in Hj. destruct Hj as [Hsj Hvgj]. apply negb_true_iff in Hvg. apply negb_true_iff in Hvgj.
      set (Li := List.length (render_steps i)). set (Lj := List.length (render_steps j)). set (K := List.length (op_text o)).
      unfold left43_tokens, right43_tokens. fold Li Lj K.
      assert (Hin' : skipn p input = 64 :: render_steps i ++ op_text o ++ 36 :: render_steps j ++ rest) by (rewrite Hin; cbn [app]; rewrite <- !app_assoc; reflexivity).
      replace ((([TAct 38] ++ inner_tokens p i ++ [TAct 39; TText p (p + 1 + Li); TAct 37]) ++
                ([TAct 38] ++ rtok (p + 1 + Li + K) j ++ [TAct 39; TText (p + 1 + Li + K) (p + 1 + Li + K + 1 + Lj); TAct 37]) ++
                [TAct (op_act o)] ++ [TText p (p + (1 + Li + K + (1 + Lj))); TAct 26]) ++ toks)
        with ([TAct 38] ++ inner_tokens p i ++ [TAct 39] ++
              ([TText p (p + 1 + Li); TAct 37] ++ ([TAct 38] ++ rtok (p + 1 + Li + K) j ++ [TAct 39] ++
               ([TText (p + 1 + Li + K) (p + 1 + Li + K + 1 + Lj); TAct 37; TAct (op_act o); TText p (p + (1 + Li + K + (1 + Lj))); TAct 26] ++ toks))))
        by (repeat (progress (cbn [app]) || rewrite <- app_assoc); reflexivity).
      rewrite (exec_operand input p i _ ps _ cps bg Hs Hin').
      assert (E37 : forall c0 b0, exec_action 37 c0 b0 (mk (ps ++ [IPQ (filter_pq cfg i); IBool false])) = AOk (mk (ps ++ [ICParam (cmp_left cfg i)]))).
      { intros c0 b0. cbn [Actions.exec_action].
        change (ps ++ [IPQ (filter_pq cfg i); IBool false]) with (ps ++ [IPQ (filter_pq cfg i)] ++ [IBool false]). rewrite app_assoc, pop_mk. cbn [abind].
        rewrite pop_mk. cbn [abind]. unfold cmp_left, filter_pq. rewrite (operand_vg cfg), Hvg. reflexivity. }
      match goal with |- context [execute ([TText ?b1 ?e1; TAct 37] ++ ?tl) input ?c0 ?b0 ?st] =>
        change (execute ([TText b1 e1; TAct 37] ++ tl) input c0 b0 st)
          with (abind (exec_action 37 (sub_list input b1 e1) b1 st) (fun st' => execute tl input (sub_list input b1 e1) b1 st')) end.
      rewrite E37. cbn [abind].
      assert (Hinj : skipn (p + 1 + Li + K) input = 36 :: render_steps j ++ rest).
      { set (X := (64 :: render_steps i) ++ op_text o).
        pose proof (skipn_next input p X (36 :: render_steps j ++ rest)) as H.
        assert (HX : List.length X = (1 + Li + K)%nat) by (unfold X; rewrite app_length; cbn [List.length]; unfold Li, K; lia).
        rewrite HX in H. replace (p + (1 + Li + K))%nat with (p + 1 + Li + K)%nat in H by lia.
        apply H. rewrite Hin'. unfold X. cbn [app]. rewrite <- !app_assoc. reflexivity. }
      rewrite (exec_operand_root cfg parse_float regex_ok input (p + 1 + Li + K) j rest (ps ++ [ICParam (cmp_left cfg i)]) _ _ _ Hsj Hinj). cbn [app Actions.execute].
      assert (E37r : forall c0 b0, exec_action 37 c0 b0 (mk ((ps ++ [ICParam (cmp_left cfg i)]) ++ [IPQ (root_pq cfg j); IBool true])) =
                                  AOk (mk ((ps ++ [ICParam (cmp_left cfg i)]) ++ [ICParam (CP (root_pq cfg j) true)]))).
      { intros c0 b0. cbn [Actions.exec_action].
        change ((ps ++ [ICParam (cmp_left cfg i)]) ++ [IPQ (root_pq cfg j); IBool true]) with ((ps ++ [ICParam (cmp_left cfg i)]) ++ [IPQ (root_pq cfg j)] ++ [IBool true]).
        rewrite app_assoc, pop_mk. cbn [abind]. rewrite pop_mk. cbn [abind]. unfold root_pq. rewrite (root_operand_vg cfg), Hvgj. reflexivity. }
      rewrite E37r. cbn [abind].
      assert (Eop : forall c0 b0, exec_action (op_act o) c0 b0 (mk ((ps ++ [ICParam (cmp_left cfg i)]) ++ [ICParam (CP (root_pq cfg j) true)])) =
                                 AOk (mk (ps ++ [IQuery (QCmp (cmp_left cfg i) (CP (root_pq cfg j) true) (match o with OLt => CLt | OLe => CLe | OGt => CGt | _ => CGe end))]))).
      { intros c0 b0. destruct o; try discriminate Ho; cbn [op_act Actions.exec_action]; unfold two_operands, pop_cparam; rewrite pop_mk; cbn [abind]; rewrite pop_mk; cbn [abind]; reflexivity. }
      rewrite Eop. cbn [abind].
      assert (E26 : forall c0 b0 c1, exec_action 26 c0 b0 (mk (ps ++ [IQuery (QCmp (cmp_left cfg i) (CP (root_pq cfg j) true) c1)])) =
                                    AOk (mk (ps ++ [IQuery (QCmp (cmp_left cfg i) (CP (root_pq cfg j) true) c1)]))).
      { intros c0 b0 c1. cbn [Actions.exec_action]. rewrite pop_mk. reflexivity. }
      rewrite E26. cbn [abind]. eexists _, _. reflexivity.
    - apply andb_true_iff in Hb. destruct Hb as [Hb Hj]. apply andb_true_iff in Hb. destruct Hb as [Hs Hvg].
      apply andb_true_iff in Hj. destruct Hj as [Hsj Hvgj]. apply negb_true_iff in Hvg. apply negb_true_iff in Hvgj.
      set (Li := List.length (render_steps i)). set (Lj := List.length (render_steps j)).
      unfold left43_tokens, right43_tokens. fold Li Lj.
      set (act := if ne then 29%nat else 28%nat).
      assert (Hin' : skipn p input = 64 :: render_steps i ++ (if ne then [33; 61] else [61; 61]) ++ 36 :: render_steps j ++ rest) by (rewrite Hin; cbn [app]; rewrite <- !app_assoc; reflexivity).
      replace ((([TAct 38] ++ inner_tokens p i ++ [TAct 39; TText p (p + 1 + Li); TAct 37]) ++
                ([TAct 38] ++ rtok (p + 1 + Li + 2) j ++ [TAct 39; TText (p + 1 + Li + 2) (p + 1 + Li + 2 + 1 + Lj); TAct 37]) ++
                [TAct act] ++ [TText p (p + (1 + Li + 2 + (1 + Lj))); TAct 26]) ++ toks)
        with ([TAct 38] ++ inner_tokens p i ++ [TAct 39] ++
              ([TText p (p + 1 + Li); TAct 37] ++ ([TAct 38] ++ rtok (p + 1 + Li + 2) j ++ [TAct 39] ++
               ([TText (p + 1 + Li + 2) (p + 1 + Li + 2 + 1 + Lj); TAct 37; TAct act; TText p (p + (1 + Li + 2 + (1 + Lj))); TAct 26] ++ toks))))
        by (repeat (progress (cbn [app]) || rewrite <- app_assoc); reflexivity).
      rewrite (exec_operand input p i _ ps _ cps bg Hs Hin').
      assert (E37 : forall c0 b0, exec_action 37 c0 b0 (mk (ps ++ [IPQ (filter_pq cfg i); IBool false])) = AOk (mk (ps ++ [ICParam (cmp_left cfg i)]))).
      { intros c0 b0. cbn [Actions.exec_action].
        change (ps ++ [IPQ (filter_pq cfg i); IBool false]) with (ps ++ [IPQ (filter_pq cfg i)] ++ [IBool false]). rewrite app_assoc, pop_mk. cbn [abind].
        rewrite pop_mk. cbn [abind]. unfold cmp_left, filter_pq. rewrite (operand_vg cfg), Hvg. reflexivity. }
      match goal with |- context [execute ([TText ?b1 ?e1; TAct 37] ++ ?tl) input ?c0 ?b0 ?st] =>
        change (execute ([TText b1 e1; TAct 37] ++ tl) input c0 b0 st)
          with (abind (exec_action 37 (sub_list input b1 e1) b1 st) (fun st' => execute tl input (sub_list input b1 e1) b1 st')) end.
      rewrite E37. cbn [abind].
      assert (Hinj : skipn (p + 1 + Li + 2) input = 36 :: render_steps j ++ rest).
      { set (X := (64 :: render_steps i) ++ (if ne then [33; 61] else [61; 61])).
        pose proof (skipn_next input p X (36 :: render_steps j ++ rest)) as H.
        assert (HX : List.length X = (1 + Li + 2)%nat) by (unfold X; rewrite app_length; destruct ne; cbn [List.length]; unfold Li; lia).
        rewrite HX in H. replace (p + (1 + Li + 2))%nat with (p + 1 + Li + 2)%nat in H by lia.
        apply H. rewrite Hin'. unfold X. cbn [app]. rewrite <- !app_assoc. reflexivity. }
      rewrite (exec_operand_root cfg parse_float regex_ok input (p + 1 + Li + 2) j rest (ps ++ [ICParam (cmp_left cfg i)]) _ _ _ Hsj Hinj). cbn [app Actions.execute].
      assert (E37r : forall c0 b0, exec_action 37 c0 b0 (mk ((ps ++ [ICParam (cmp_left cfg i)]) ++ [IPQ (root_pq cfg j); IBool true])) =
                                  AOk (mk ((ps ++ [ICParam (cmp_left cfg i)]) ++ [ICParam (CP (root_pq cfg j) true)]))).
      { intros c0 b0. cbn [Actions.exec_action].
        change ((ps ++ [ICParam (cmp_left cfg i)]) ++ [IPQ (root_pq cfg j); IBool true]) with ((ps ++ [ICParam (cmp_left cfg i)]) ++ [IPQ (root_pq cfg j)] ++ [IBool true]).
        rewrite app_assoc, pop_mk. cbn [abind]. rewrite pop_mk. cbn [abind]. unfold root_pq. rewrite (root_operand_vg cfg), Hvgj. reflexivity. }
      rewrite E37r. cbn [abind].
      assert (Eop : forall c0 b0, exec_action act c0 b0 (mk ((ps ++ [ICParam (cmp_left cfg i)]) ++ [ICParam (CP (root_pq cfg j) true)])) =
                                 AOk (mk (ps ++ [IQuery (if ne then QNot (QCmp (cmp_left cfg i) (CP (root_pq cfg j) true) CDeepEq) else QCmp (cmp_left cfg i) (CP (root_pq cfg j) true) CDeepEq)]))).
      { intros c0 b0. unfold act. destruct ne; cbn [Actions.exec_action]; unfold two_operands, pop_cparam; rewrite pop_mk; cbn [abind]; rewrite pop_mk; cbn [abind].
        - unfold push_compare_eq, cmp_left, root_pq, filter_pq. change (swap_required ?a ?b) with false. cbv iota beta. unfold pop_query, push. rewrite pop_mk. cbn [abind]. reflexivity.
        - unfold push_compare_eq, cmp_left, root_pq, filter_pq. reflexivity. }
      rewrite Eop. cbn [abind].
      assert (E26 : forall c0 b0 q0, (q0 = QCmp (cmp_left cfg i) (CP (root_pq cfg j) true) CDeepEq \/ q0 = QNot (QCmp (cmp_left cfg i) (CP (root_pq cfg j) true) CDeepEq)) ->
                      exec_action 26 c0 b0 (mk (ps ++ [IQuery q0])) = AOk (mk (ps ++ [IQuery q0]))).
      { intros c0 b0 q0 [E|E]; subst q0; cbn [Actions.exec_action]; rewrite pop_mk; reflexivity. }
      rewrite E26 by (destruct ne; auto). cbn [abind]. eexists _, _. destruct ne; reflexivity.
    - apply andb_true_iff in Hb. destruct Hb as [Hb Hre]. apply andb_true_iff in Hb. destruct Hb as [Hs Hvg]. apply negb_true_iff in Hvg.
      set (Li := List.length (render_steps i)). set (B := List.length body).
      unfold rx39_tokens, left43_tokens. cbv zeta. fold Li B.
      assert (Hin' : skipn p input = 64 :: render_steps i ++ [61; 126; 47] ++ body ++ 47 :: rest) by (rewrite Hin; repeat (progress (cbn [app]) || rewrite <- app_assoc); reflexivity).
      replace (((([TAct 38] ++ inner_tokens p i ++ [TAct 39; TText p (p + 1 + Li); TAct 37]) ++ [TText (p + 1 + Li + 3) (p + 1 + Li + 3 + B); TAct 34]) ++
               [TText p (p + (1 + Li + 3 + B + 1)); TAct 26]) ++ toks)
        with ([TAct 38] ++ inner_tokens p i ++ [TAct 39] ++
              ([TText p (p + 1 + Li); TAct 37] ++ ([TText (p + 1 + Li + 3) (p + 1 + Li + 3 + B); TAct 34; TText p (p + (1 + Li + 3 + B + 1)); TAct 26] ++ toks)))
        by (repeat (progress (cbn [app]) || rewrite <- app_assoc); reflexivity).
      rewrite (exec_operand input p i _ ps _ cps bg Hs Hin').
      assert (E37 : forall c0 b0, exec_action 37 c0 b0 (mk (ps ++ [IPQ (filter_pq cfg i); IBool false])) = AOk (mk (ps ++ [ICParam (cmp_left cfg i)]))).
      { intros c0 b0. cbn [Actions.exec_action].
        change (ps ++ [IPQ (filter_pq cfg i); IBool false]) with (ps ++ [IPQ (filter_pq cfg i)] ++ [IBool false]). rewrite app_assoc, pop_mk. cbn [abind].
        rewrite pop_mk. cbn [abind]. unfold cmp_left, filter_pq. rewrite (operand_vg cfg), Hvg. reflexivity. }
      match goal with |- context [execute ([TText ?b1 ?e1; TAct 37] ++ ?tl) input ?c0 ?b0 ?st] =>
        change (execute ([TText b1 e1; TAct 37] ++ tl) input c0 b0 st)
          with (abind (exec_action 37 (sub_list input b1 e1) b1 st) (fun st' => execute tl input (sub_list input b1 e1) b1 st')) end.
      rewrite E37. cbn [abind]. cbn [app Actions.execute].
      assert (Ec : sub_list input (p + 1 + Li + 3) (p + 1 + Li + 3 + B) = body).
      { pose proof (sub_at input p (1 + Li + 3) ((64 :: render_steps i) ++ [61; 126; 47]) body (47 :: rest)) as H.
        replace (p + (1 + Li + 3))%nat with (p + 1 + Li + 3)%nat in H by lia. apply H.
        - rewrite Hin'. cbn [app]. rewrite <- !app_assoc. reflexivity.
        - rewrite app_length. cbn [List.length]. unfold Li. lia. }
      rewrite Ec.
      assert (E34 : forall b0, exec_action 34 body b0 (mk (ps ++ [ICParam (cmp_left cfg i)])) = AOk (mk (ps ++ [IQuery (rx_query cfg i body)]))).
      { intros b0. cbn [Actions.exec_action]. unfold pop_cparam. rewrite pop_mk. cbn [abind]. rewrite Hp. reflexivity. }
      rewrite E34. cbn [abind].
      assert (E26 : forall c0 b0, exec_action 26 c0 b0 (mk (ps ++ [IQuery (rx_query cfg i body)])) = AOk (mk (ps ++ [IQuery (rx_query cfg i body)]))).
      { intros c0 b0. cbn [Actions.exec_action]. rewrite pop_mk. reflexivity. }
      rewrite E26. cbn [abind]. eexists _, _. reflexivity.
    - (* number OP @ steps: the operands are exchanged and an ordering is mirrored *)
      apply andb_true_iff in Hb. destruct Hb as [Hb Hl]. apply andb_true_iff in Hb. destruct Hb as [Hs Hvg]. apply negb_true_iff in Hvg.
      destruct (parse_float (text_of lit)) as [f|] eqn:Hpf; [|discriminate Hp].
      assert (Eq : qnum lit = f) by (unfold qnum; rewrite Hpf; reflexivity). rewrite Eq.
      set (L := List.length (render_steps i)). set (K := List.length (op_text o)). set (M := List.length lit).
      unfold lcmp39_tokens, left43_tokens. fold L K M.
      assert (Hin' : skipn p input = lit ++ op_text o ++ 64 :: render_steps i ++ rest) by (rewrite Hin; rewrite <- !app_assoc; cbn [app]; rewrite <- ?app_assoc; reflexivity).
      replace ((([TText p (p + M); TAct 40; TAct (lit_act o)] ++
                 ([TAct 38] ++ inner_tokens (p + M + K) i ++ [TAct 39; TText (p + M + K) (p + M + K + 1 + L); TAct 37]) ++ [TAct (op_act o)]) ++
                [TText p (p + (M + K + 1 + L)); TAct 26]) ++ toks)
        with ([TText p (p + M); TAct 40; TAct (lit_act o)] ++
              ([TAct 38] ++ inner_tokens (p + M + K) i ++ [TAct 39] ++
               ([TText (p + M + K) (p + M + K + 1 + L); TAct 37; TAct (op_act o); TText p (p + (M + K + 1 + L)); TAct 26] ++ toks)))
        by (repeat (progress (cbn [app]) || rewrite <- app_assoc); reflexivity).
      set (T2 := [TAct 38] ++ inner_tokens (p + M + K) i ++ [TAct 39] ++
                 ([TText (p + M + K) (p + M + K + 1 + L); TAct 37; TAct (op_act o); TText p (p + (M + K + 1 + L)); TAct 26] ++ toks)).
      cbn [app Actions.execute].
      assert (Elit : sub_list input p (p + M) = lit).
      { pose proof (sub_at input p 0 [] lit (op_text o ++ 64 :: render_steps i ++ rest)) as H. rewrite Nat.add_0_r in H. apply H; [exact Hin'|reflexivity]. }
      rewrite Elit.
      assert (E40 : forall b0 st, exec_action 40 lit b0 st = AOk (push (INum f) st)) by (intros b0 st; cbn [Actions.exec_action]; rewrite Hpf; reflexivity).
      rewrite E40. cbn [abind].
      change (push (INum f) (mk ps)) with (mk (ps ++ [INum f])).
      assert (Elt : forall c0 b0, exec_action (lit_act o) c0 b0 (mk (ps ++ [INum f])) = AOk (mk (ps ++ [ICParam (cmp_right f)]))).
      { intros c0 b0. destruct o; cbn [lit_act Actions.exec_action]; rewrite pop_mk; reflexivity. }
      rewrite Elt. cbn [abind].
      assert (Hin2 : skipn (p + M + K) input = 64 :: render_steps i ++ rest).
      { pose proof (skipn_next input p (lit ++ op_text o) (64 :: render_steps i ++ rest)) as H. rewrite app_length in H. fold M K in H.
        replace (p + (M + K))%nat with (p + M + K)%nat in H by lia. apply H. rewrite Hin', <- app_assoc. reflexivity. }
      subst T2.
      rewrite (exec_operand input (p + M + K) i rest (ps ++ [ICParam (cmp_right f)]) _ _ _ Hs Hin2). cbn [app Actions.execute].
      assert (E37 : forall c0 b0, exec_action 37 c0 b0 (mk ((ps ++ [ICParam (cmp_right f)]) ++ [IPQ (filter_pq cfg i); IBool false])) =
                                 AOk (mk ((ps ++ [ICParam (cmp_right f)]) ++ [ICParam (cmp_left cfg i)]))).
      { intros c0 b0. cbn [Actions.exec_action].
        change ((ps ++ [ICParam (cmp_right f)]) ++ [IPQ (filter_pq cfg i); IBool false]) with ((ps ++ [ICParam (cmp_right f)]) ++ [IPQ (filter_pq cfg i)] ++ [IBool false]).
        rewrite app_assoc, pop_mk. cbn [abind]. rewrite pop_mk. cbn [abind]. unfold cmp_left, filter_pq. rewrite (operand_vg cfg), Hvg. reflexivity. }
      rewrite E37. cbn [abind].
      assert (Eop : forall c0 b0, exec_action (op_act o) c0 b0 (mk ((ps ++ [ICParam (cmp_right f)]) ++ [ICParam (cmp_left cfg i)])) =
                                 AOk (mk (ps ++ [IQuery (cmp_query cfg i (mirror_op o) f)]))).
      { intros c0 b0. destruct o; cbn [op_act mirror_op Actions.exec_action]; unfold two_operands, pop_cparam; rewrite pop_mk; cbn [abind]; rewrite pop_mk; cbn [abind];
          unfold cmp_query, cmp_left, cmp_right, filter_pq; try reflexivity.
        unfold pop_query.
        match goal with |- context [push_compare_eq ?l ?r (mk ps)] => change (push_compare_eq l r (mk ps)) with (mk (ps ++ [IQuery (QCmp r l (CDirectEq VdNumeric))])) end.
        rewrite pop_mk. reflexivity. }
      rewrite Eop. cbn [abind].
      assert (E26 : forall c0 b0, exec_action 26 c0 b0 (mk (ps ++ [IQuery (cmp_query cfg i (mirror_op o) f)])) = AOk (mk (ps ++ [IQuery (cmp_query cfg i (mirror_op o) f)]))).
      { intros c0 b0. cbn [Actions.exec_action]. rewrite pop_mk. cbn [abind]. destruct o; reflexivity. }
      rewrite E26. cbn [abind]. eexists _, _. reflexivity.
    - (* 'text' == @ steps, true != @ steps, null == @ steps: the operands are exchanged *)
      apply andb_true_iff in Hb. destruct Hb as [Hb Hl]. apply andb_true_iff in Hb. destruct Hb as [Hs Hvg]. apply negb_true_iff in Hvg.
      set (L := List.length (render_steps i)). set (M := List.length (litv_text l)).
      unfold left43_tokens. fold L M.
      assert (Hin' : skipn p input = litv_text l ++ (if ne then [33; 61] else [61; 61]) ++ 64 :: render_steps i ++ rest)
        by (rewrite Hin; rewrite <- !app_assoc; cbn [app]; rewrite <- ?app_assoc; reflexivity).
      replace ((litv_tokens p l ++ [TAct 35] ++ ([TAct 38] ++ inner_tokens (p + M + 2) i ++ [TAct 39; TText (p + M + 2) (p + M + 2 + 1 + L); TAct 37]) ++
                [TAct (if ne then 29%nat else 28%nat)] ++ [TText p (p + (M + 2 + 1 + L)); TAct 26]) ++ toks)
        with (litv_tokens p l ++ TAct 35 :: ([TAct 38] ++ inner_tokens (p + M + 2) i ++ [TAct 39] ++
              ([TText (p + M + 2) (p + M + 2 + 1 + L); TAct 37; TAct (if ne then 29%nat else 28%nat); TText p (p + (M + 2 + 1 + L)); TAct 26] ++ toks)))
        by (repeat (progress (cbn [app]) || rewrite <- app_assoc); reflexivity).
      assert (Elit : exists c1 b1, forall toks1,
                execute (litv_tokens p l ++ TAct 35 :: toks1) input cps bg (mk ps) =
                execute toks1 input c1 b1 (mk (ps ++ [ICParam (CP (PqLit (litv_value l)) true)]))).
      { destruct l as [q body|b0 sp|sp]; cbn [litv_tokens litv_value app Actions.execute].
        - assert (Eb : sub_list input (p + 1) (p + 1 + List.length body) = body).
          { pose proof (sub_at input p 1 [q] body ([q] ++ (if ne then [33; 61] else [61; 61]) ++ 64 :: render_steps i ++ rest)) as H.
            apply H; [|reflexivity]. rewrite Hin'. cbn [litv_text app]. rewrite <- !app_assoc. cbn [app]. reflexivity. }
          rewrite Eb. eexists _, _. intros toks1.
          assert (E4 : forall b1 st, exec_action (if q =? 39 then 43%nat else 44%nat) body b1 st = AOk (push (IStr (text_of (unescape_cps body))) st)).
          { intros b1 st. destruct (q =? 39); cbn [Actions.exec_action]; reflexivity. }
          rewrite E4. cbn [abind].
          change (push (IStr (text_of (unescape_cps body))) (mk ps)) with (mk (ps ++ [IStr (text_of (unescape_cps body))])).
          cbn [Actions.exec_action]. rewrite pop_mk. cbn [abind literal_of]. reflexivity.
        - eexists _, _. intros toks1. destruct b0; cbn [litv_tokens app Actions.execute Actions.exec_action abind];
            (match goal with |- context [push ?x (mk ?l0)] => change (push x (mk l0)) with (mk (l0 ++ [x])) end); rewrite pop_mk; reflexivity.
        - eexists _, _. intros toks1. cbn [Actions.exec_action abind].
          (match goal with |- context [push ?x (mk ?l0)] => change (push x (mk l0)) with (mk (l0 ++ [x])) end). rewrite pop_mk. reflexivity. }
      destruct Elit as (c1 & b1 & Elit). rewrite Elit.
      assert (Hin2 : skipn (p + M + 2) input = 64 :: render_steps i ++ rest).
      { pose proof (skipn_next input p (litv_text l ++ (if ne then [33; 61] else [61; 61])) (64 :: render_steps i ++ rest)) as H. rewrite app_length in H. fold M in H.
        assert (E2 : List.length (if ne then [33; 61] else [61; 61]) = 2%nat) by (destruct ne; reflexivity). rewrite E2 in H.
        replace (p + (M + 2))%nat with (p + M + 2)%nat in H by lia.
        apply H. rewrite Hin', <- app_assoc. reflexivity. }
      rewrite (exec_operand input (p + M + 2) i rest (ps ++ [ICParam (CP (PqLit (litv_value l)) true)]) _ _ _ Hs Hin2). cbn [app Actions.execute].
      assert (E37 : forall c0 b0, exec_action 37 c0 b0 (mk ((ps ++ [ICParam (CP (PqLit (litv_value l)) true)]) ++ [IPQ (filter_pq cfg i); IBool false])) =
                                 AOk (mk ((ps ++ [ICParam (CP (PqLit (litv_value l)) true)]) ++ [ICParam (cmp_left cfg i)]))).
      { intros c0 b0. cbn [Actions.exec_action].
        change ((ps ++ [ICParam (CP (PqLit (litv_value l)) true)]) ++ [IPQ (filter_pq cfg i); IBool false])
          with ((ps ++ [ICParam (CP (PqLit (litv_value l)) true)]) ++ [IPQ (filter_pq cfg i)] ++ [IBool false]).
        rewrite app_assoc, pop_mk. cbn [abind]. rewrite pop_mk. cbn [abind]. unfold cmp_left, filter_pq. rewrite (operand_vg cfg), Hvg. reflexivity. }
      rewrite E37. cbn [abind].
      assert (Eop : forall c0 b0, exec_action (if ne then 29%nat else 28%nat) c0 b0 (mk ((ps ++ [ICParam (CP (PqLit (litv_value l)) true)]) ++ [ICParam (cmp_left cfg i)])) =
                                 AOk (mk (ps ++ [IQuery (if ne then QNot (lit_cmp i l) else lit_cmp i l)]))).
      { intros c0 b0. assert (Epc : push_compare_eq (CP (PqLit (litv_value l)) true) (cmp_left cfg i) (mk ps) = mk (ps ++ [IQuery (lit_cmp i l)]))
          by (destruct l; unfold cmp_left, filter_pq; reflexivity).
        destruct ne; cbn [Actions.exec_action]; unfold two_operands, pop_cparam; rewrite pop_mk; cbn [abind]; rewrite pop_mk; cbn [abind]; rewrite Epc; [|reflexivity].
        unfold pop_query. rewrite pop_mk. reflexivity. }
      rewrite Eop. cbn [abind].
      assert (E26 : forall c0 b0 q, (q = lit_cmp i l \/ q = QNot (lit_cmp i l)) -> exec_action 26 c0 b0 (mk (ps ++ [IQuery q])) = AOk (mk (ps ++ [IQuery q]))).
      { intros c0 b0 q [E|E]; subst q; cbn [Actions.exec_action]; rewrite pop_mk; reflexivity. }
      rewrite E26 by (destruct ne; auto). cbn [abind]. eexists _, _. reflexivity.
    - (* $ steps OP @ steps: the `$` path ranks above the `@` path, the operands are exchanged, an ordering is mirrored *)
      apply andb_true_iff in Hb. destruct Hb as [Hb Hj]. apply andb_true_iff in Hb. destruct Hb as [Hs Hvg].
      apply andb_true_iff in Hj. destruct Hj as [Hsj Hvgj]. apply negb_true_iff in Hvg. apply negb_true_iff in Hvgj.
      set (Li := List.length (render_steps i)). set (Lj := List.length (render_steps j)). set (K := List.length (op_text o)).
      unfold rl39_tokens, left43_tokens, right43_tokens. fold Li Lj K.
      assert (Hin' : skipn p input = 36 :: render_steps j ++ op_text o ++ 64 :: render_steps i ++ rest)
        by (rewrite Hin; cbn [app]; rewrite <- !app_assoc; cbn [app]; rewrite <- ?app_assoc; reflexivity).
      replace (((([TAct 38] ++ rtok p j ++ [TAct 39; TText p (p + 1 + Lj); TAct 37]) ++
                 ([TAct 38] ++ inner_tokens (p + 1 + Lj + K) i ++ [TAct 39; TText (p + 1 + Lj + K) (p + 1 + Lj + K + 1 + Li); TAct 37]) ++ [TAct (op_act o)]) ++
                [TText p (p + (1 + Lj + K + 1 + Li)); TAct 26]) ++ toks)
        with ([TAct 38] ++ rtok p j ++ [TAct 39] ++
              ([TText p (p + 1 + Lj); TAct 37] ++ ([TAct 38] ++ inner_tokens (p + 1 + Lj + K) i ++ [TAct 39] ++
               ([TText (p + 1 + Lj + K) (p + 1 + Lj + K + 1 + Li); TAct 37; TAct (op_act o); TText p (p + (1 + Lj + K + 1 + Li)); TAct 26] ++ toks))))
        by (repeat (progress (cbn [app]) || rewrite <- app_assoc); reflexivity).
      rewrite (exec_operand_root cfg parse_float regex_ok input p j _ ps _ cps bg Hsj Hin').
      assert (E37r : forall c0 b0, exec_action 37 c0 b0 (mk (ps ++ [IPQ (root_pq cfg j); IBool true])) = AOk (mk (ps ++ [ICParam (CP (root_pq cfg j) true)]))).
      { intros c0 b0. cbn [Actions.exec_action].
        change (ps ++ [IPQ (root_pq cfg j); IBool true]) with (ps ++ [IPQ (root_pq cfg j)] ++ [IBool true]).
        rewrite app_assoc, pop_mk. cbn [abind]. rewrite pop_mk. cbn [abind]. unfold root_pq. rewrite (root_operand_vg cfg), Hvgj. reflexivity. }
      match goal with |- context [execute ([TText ?b1 ?e1; TAct 37] ++ ?tl) input ?c0 ?b0 ?st] =>
        change (execute ([TText b1 e1; TAct 37] ++ tl) input c0 b0 st)
          with (abind (exec_action 37 (sub_list input b1 e1) b1 st) (fun st' => execute tl input (sub_list input b1 e1) b1 st')) end.
      rewrite E37r. cbn [abind].
      assert (Hini : skipn (p + 1 + Lj + K) input = 64 :: render_steps i ++ rest).
      { set (X := (36 :: render_steps j) ++ op_text o).
        pose proof (skipn_next input p X (64 :: render_steps i ++ rest)) as H.
        assert (HX : List.length X = (1 + Lj + K)%nat) by (unfold X; rewrite app_length; cbn [List.length]; unfold Lj, K; lia).
        rewrite HX in H. replace (p + (1 + Lj + K))%nat with (p + 1 + Lj + K)%nat in H by lia.
        apply H. rewrite Hin'. unfold X. cbn [app]. rewrite <- !app_assoc. reflexivity. }
      rewrite (exec_operand input (p + 1 + Lj + K) i rest (ps ++ [ICParam (CP (root_pq cfg j) true)]) _ _ _ Hs Hini). cbn [app Actions.execute].
      assert (E37 : forall c0 b0, exec_action 37 c0 b0 (mk ((ps ++ [ICParam (CP (root_pq cfg j) true)]) ++ [IPQ (filter_pq cfg i); IBool false])) =
                                 AOk (mk ((ps ++ [ICParam (CP (root_pq cfg j) true)]) ++ [ICParam (cmp_left cfg i)]))).
      { intros c0 b0. cbn [Actions.exec_action].
        change ((ps ++ [ICParam (CP (root_pq cfg j) true)]) ++ [IPQ (filter_pq cfg i); IBool false])
          with ((ps ++ [ICParam (CP (root_pq cfg j) true)]) ++ [IPQ (filter_pq cfg i)] ++ [IBool false]).
        rewrite app_assoc, pop_mk. cbn [abind]. rewrite pop_mk. cbn [abind]. unfold cmp_left, filter_pq. rewrite (operand_vg cfg), Hvg. reflexivity. }
      rewrite E37. cbn [abind].
      set (Q := match o with
                | OEq => QCmp (cmp_left cfg i) (CP (root_pq cfg j) true) CDeepEq | ONe => QNot (QCmp (cmp_left cfg i) (CP (root_pq cfg j) true) CDeepEq)
                | OLt => QCmp (cmp_left cfg i) (CP (root_pq cfg j) true) CGt | OLe => QCmp (cmp_left cfg i) (CP (root_pq cfg j) true) CGe
                | OGt => QCmp (cmp_left cfg i) (CP (root_pq cfg j) true) CLt | OGe => QCmp (cmp_left cfg i) (CP (root_pq cfg j) true) CLe
                end).
      assert (Eop : forall c0 b0, exec_action (op_act o) c0 b0 (mk ((ps ++ [ICParam (CP (root_pq cfg j) true)]) ++ [ICParam (cmp_left cfg i)])) = AOk (mk (ps ++ [IQuery Q]))).
      { intros c0 b0. unfold Q. destruct o; cbn [op_act Actions.exec_action]; unfold two_operands, pop_cparam; rewrite pop_mk; cbn [abind]; rewrite pop_mk; cbn [abind];
          unfold cmp_left, root_pq, filter_pq; try reflexivity.
        unfold pop_query.
        match goal with |- context [push_compare_eq ?l ?r (mk ps)] => change (push_compare_eq l r (mk ps)) with (mk (ps ++ [IQuery (QCmp r l CDeepEq)])) end.
        rewrite pop_mk. reflexivity. }
      rewrite Eop. cbn [abind].
      assert (E26 : forall c0 b0, exec_action 26 c0 b0 (mk (ps ++ [IQuery Q])) = AOk (mk (ps ++ [IQuery Q]))).
      { intros c0 b0. unfold Q. cbn [Actions.exec_action]. rewrite pop_mk. cbn [abind]. destruct o; reflexivity. }
      rewrite E26. cbn [abind]. eexists _, _. reflexivity.
  Qed.

  Definition conj_query (c : list bq) : query :=
    match c with [] => QParam (PqLit VNull) | b :: bs => fold_left (fun q x => QAnd q (bq_query x)) bs (bq_query b) end.
  Definition dnf_query (d : list (list bq)) : query :=
    match d with [] => QParam (PqLit VNull) | c :: cs => fold_left (fun q x => QOr q (conj_query x)) cs (conj_query c) end.

  Lemma exec_and_rest input bs : forall p q rest ps toks cps bg, forallb bq_ok bs = true -> forallb bq_okp bs = true ->
    skipn p input = and_tail bs ++ rest ->
    exists cps' b', execute (and_rest p bs ++ toks) input cps bg (mk (ps ++ [IQuery q])) =
                    execute toks input cps' b' (mk (ps ++ [IQuery (fold_left (fun q0 x => QAnd q0 (bq_query x)) bs q)])).
  Proof.
    induction bs as [|x r IH]; intros p q rest ps toks cps bg Hs Hp Hin.
    - exists cps, bg. reflexivity.
    - cbn [forallb] in Hs, Hp. apply andb_true_iff in Hs. destruct Hs as [H1 H2]. apply andb_true_iff in Hp. destruct Hp as [P1 P2].
      cbn [and_tail flat_map] in Hin. fold (and_tail r) in Hin. rewrite <- !app_assoc in Hin. cbn [app] in Hin.
      assert (Hin2 : skipn (p + 2) input = bq_text x ++ and_tail r ++ rest) by (apply (skipn_next input p [38; 38] _ Hin)).
      cbn [and_rest]. rewrite <- !app_assoc.
      destruct (exec_bq input (p + 2) x _ (ps ++ [IQuery q]) ([TAct 25] ++ and_rest (p + 2 + List.length (bq_text x)) r ++ toks) cps bg H1 P1 Hin2) as (c1 & b1 & E1).
      rewrite E1. clear E1. cbn [app Actions.execute].
      assert (E25 : forall c0 b0, exec_action 25 c0 b0 (mk ((ps ++ [IQuery q]) ++ [IQuery (bq_query x)])) = AOk (mk (ps ++ [IQuery (QAnd q (bq_query x))]))).
      { intros c0 b0. cbn [Actions.exec_action]. unfold pop_query. rewrite pop_mk. cbn [abind]. rewrite pop_mk. reflexivity. }
      rewrite E25. cbn [abind].
      destruct (IH (p + 2 + List.length (bq_text x))%nat (QAnd q (bq_query x)) rest ps toks c1 b1 H2 P2 (skipn_next input (p + 2) _ _ Hin2)) as (c2 & b2 & E2).
      rewrite E2. cbn [fold_left]. eexists _, _. reflexivity.
  Qed.

  Lemma exec_conj input p c rest ps toks cps bg : conj_ok c = true -> forallb bq_okp c = true -> skipn p input = and_text c ++ rest ->
    exists cps' b', execute (and_tokens p c ++ toks) input cps bg (mk ps) = execute toks input cps' b' (mk (ps ++ [IQuery (conj_query c)])).
  Proof.
    intros Hc Hp Hin. destruct c as [|b bs]; [discriminate Hc|]. cbn [conj_ok forallb] in Hc, Hp.
    apply andb_true_iff in Hc. destruct Hc as [H1 H2]. apply andb_true_iff in Hp. destruct Hp as [P1 P2].
    cbn [and_text] in Hin. fold (and_tail bs) in Hin. rewrite <- app_assoc in Hin. cbn [and_tokens conj_query]. rewrite <- app_assoc.
    destruct (exec_bq input p b _ ps (and_rest (p + List.length (bq_text b)) bs ++ toks) cps bg H1 P1 Hin) as (c1 & b1 & E1). rewrite E1.
    apply (exec_and_rest input bs _ (bq_query b) rest ps toks c1 b1 H2 P2 (skipn_next input p _ _ Hin)).
  Qed.

  Lemma exec_or_rest input cs : forall p q rest ps toks cps bg, forallb conj_ok cs = true -> forallb (forallb bq_okp) cs = true ->
    skipn p input = or_tail cs ++ rest ->
    exists cps' b', execute (or_rest p cs ++ toks) input cps bg (mk (ps ++ [IQuery q])) =
                    execute toks input cps' b' (mk (ps ++ [IQuery (fold_left (fun q0 x => QOr q0 (conj_query x)) cs q)])).
  Proof.
    induction cs as [|x r IH]; intros p q rest ps toks cps bg Hs Hp Hin.
    - exists cps, bg. reflexivity.
    - cbn [forallb] in Hs, Hp. apply andb_true_iff in Hs. destruct Hs as [H1 H2]. apply andb_true_iff in Hp. destruct Hp as [P1 P2].
      cbn [or_tail flat_map] in Hin. fold (or_tail r) in Hin. rewrite <- !app_assoc in Hin. cbn [app] in Hin.
      assert (Hin2 : skipn (p + 2) input = and_text x ++ or_tail r ++ rest) by (apply (skipn_next input p [124; 124] _ Hin)).
      cbn [or_rest]. rewrite <- !app_assoc.
      destruct (exec_conj input (p + 2) x _ (ps ++ [IQuery q]) ([TAct 24] ++ or_rest (p + 2 + List.length (and_text x)) r ++ toks) cps bg H1 P1 Hin2) as (c1 & b1 & E1).
      rewrite E1. clear E1. cbn [app Actions.execute].
      assert (E24 : forall c0 b0, exec_action 24 c0 b0 (mk ((ps ++ [IQuery q]) ++ [IQuery (conj_query x)])) = AOk (mk (ps ++ [IQuery (QOr q (conj_query x))]))).
      { intros c0 b0. cbn [Actions.exec_action]. unfold pop_query. rewrite pop_mk. cbn [abind]. rewrite pop_mk. reflexivity. }
      rewrite E24. cbn [abind].
      destruct (IH (p + 2 + List.length (and_text x))%nat (QOr q (conj_query x)) rest ps toks c1 b1 H2 P2 (skipn_next input (p + 2) _ _ Hin2)) as (c2 & b2 & E2).
      rewrite E2. cbn [fold_left]. eexists _, _. reflexivity.
  Qed.

  Definition dnf_okp (d : list (list bq)) : bool := forallb (forallb bq_okp) d.
  Definition fq_kind (d : list (list bq)) : kind := KFilter (dnf_query d).
  Definition fq_basic (d : list (list bq)) : basic := mk_basic (text_of (fq_text d)) true (cfg_accessor cfg).
  Definition fq_node (d : list (list bq)) : node := Node (fq_kind d) (fq_basic d) ONone.

  Lemma exec_fq input p d rest ps toks cps bg : dnf_ok d = true -> dnf_okp d = true -> skipn p input = fq_text d ++ rest ->
    exists cps' b', execute (fq_tokens p d ++ toks) input cps bg (mk ps) = execute toks input cps' b' (mk (ps ++ [INode (fq_node d)])).
  Proof.
    intros Hd Hp Hin. destruct d as [|c cs]; [discriminate Hd|]. cbn [dnf_ok dnf_okp forallb] in Hd, Hp.
    apply andb_true_iff in Hd. destruct Hd as [H1 H2]. apply andb_true_iff in Hp. destruct Hp as [P1 P2].
    assert (Hin' : skipn p input = [91; 63; 40] ++ and_text c ++ or_tail cs ++ [41; 93] ++ rest).
    { rewrite Hin. unfold fq_text. cbn [q_text app]. fold (or_tail cs). rewrite <- !app_assoc. reflexivity. }
    assert (Hin3 : skipn (p + 3) input = and_text c ++ or_tail cs ++ [41; 93] ++ rest) by (apply (skipn_next input p [91; 63; 40] _ Hin')).
    unfold fq_tokens. cbn [q_tokens]. rewrite <- !app_assoc.
    destruct (exec_conj input (p + 3) c _ ps (or_rest (p + 3 + List.length (and_text c)) cs ++ [TAct 23; TText p (p + 5 + List.length (q_text (c :: cs))); TAct 7] ++ toks) cps bg H1 P1 Hin3) as (c1 & b1 & E1).
    rewrite E1. clear E1.
    destruct (exec_or_rest input cs _ (conj_query c) ([41; 93] ++ rest) ps ([TAct 23; TText p (p + 5 + List.length (q_text (c :: cs))); TAct 7] ++ toks) c1 b1 H2 P2 (skipn_next input (p + 3) _ _ Hin3)) as (c2 & b2 & E2).
    rewrite E2. clear E2. cbn [app Actions.execute].
    fold (dnf_query (c :: cs)).
    assert (E23 : forall c0 b0, exec_action 23 c0 b0 (mk (ps ++ [IQuery (dnf_query (c :: cs))])) =
                               AOk (mk (ps ++ [INode (Node (fq_kind (c :: cs)) (mk_basic "" true (cfg_accessor cfg)) ONone)]))).
    { intros c0 b0. cbn [Actions.exec_action]. unfold pop_query. rewrite pop_mk. reflexivity. }
    change (fold_left (fun q0 x => QOr q0 (conj_query x)) cs (conj_query c)) with (dnf_query (c :: cs)).
    rewrite E23. cbn [abind].
    assert (Et : sub_list input p (p + 5 + List.length (q_text (c :: cs))) = fq_text (c :: cs)).
    { pose proof (sub_at input p 0 [] (fq_text (c :: cs)) rest) as H. rewrite Nat.add_0_r in H.
      replace (p + 5 + List.length (q_text (c :: cs)))%nat with (p + List.length (fq_text (c :: cs)))%nat by (rewrite fq_text_len; lia).
      apply H; [exact Hin|reflexivity]. }
    rewrite Et.
    assert (E7 : forall b0, exec_action 7 (fq_text (c :: cs)) b0 (mk (ps ++ [INode (Node (fq_kind (c :: cs)) (mk_basic "" true (cfg_accessor cfg)) ONone)])) =
                            AOk (mk (ps ++ [INode (fq_node (c :: cs))]))).
    { intros b0. cbn [Actions.exec_action]. unfold set_last_node_text, pop_node. rewrite pop_mk. reflexivity. }
    rewrite E7. cbn [abind]. eexists _, _. reflexivity.
  Qed.
End QueryExec.
