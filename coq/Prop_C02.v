(* Prop_C02.v — property C02: Parse is total (PARTIAL).
   Proved: (1) the PEG part never fails on the regenerated grammar (C02_peg_never_fails): every
   string reaches Execute, every rejection is raised by an action; (2) the comparison builders are not
   recursive: operands are put in rank order with at most one swap (C02_compare_builder_total — the
   pinned tree recursed for ever on two operands of equal rank, D1); (3) in the model a Parse
   outcome is a function, a documented error or an explicit crash site, and syntax errors point
   inside the path.  NOT yet proved: that no action reaches a crash site (stack discipline of the 46
   actions: pop on an empty segment, failed type assertion, empty capture slice) and that the fuel
   bound of the interpreter suffices (termination).  Both are covered by the correspondence check:
   the generated strings (bounded-exhaustive reduced grammar included) run in isolated workers with a
   time limit, and a model outcome `crash` or an implementation crash/timeout/undocumented error type
   is a violation. *)
From JP Require Import Peg Grammar Text Tree Actions PegFacts ParseFacts CompareFacts.

Theorem C02_peg_never_fails : forall s, peg_parse jsonpath_grammar s <> PFail.
Proof. intros s. exact (expression_total (parse_fuel s) s 0). Qed.
Print Assumptions C02_peg_never_fails.

Theorem C02_compare_builder_total : forall c l r st,
  exists l' r' c', push_compare_ord c l r st = push (IQuery (QCmp l' r' c')) st /\ rank l' <= rank r'.
Proof. exact push_compare_ord_ordered. Qed.
Print Assumptions C02_compare_builder_total.

Theorem C02_syntax_error_inside : forall cfg parse_float regex_ok g input p r,
  parse_with cfg parse_float regex_ok g input = ParseErr (ESyntax p r) -> p <= List.length input.
Proof. exact syntax_error_inside. Qed.
Print Assumptions C02_syntax_error_inside.
