(* Prop_C02.v — property C02: Parse is total.
   C02_parse_total: in the model (PEG interpreter running the grammar regenerated from jsonpath.peg, then
   the 46 actions replayed over the tokens of the match) every string gives a syntax tree or a
   documented error.  Three ingredients, all evaluated on the regenerated grammar:
   (1) the PEG part never fails (C02_peg_never_fails): every rejection is raised by an action;
   (2) no action reaches a crash site of the action model — pop on an empty parameter list, a failed
       type assertion, text[0:1] on an empty capture, a parse that ends without a root — for any input
       (C02_no_crash_site): a verified stack-effect checker (StackCheck.v) types every rule of the grammar
       against a summary (StackRules.v); the node chain, the save/restore of the parameter list around a
       filter operand and the start rule are proved by hand in the same logic;
   (3) the interpreter's fuel 200 + 40*|input| is never exhausted and no repetition spins without
       consuming input (C02_fuel_suffices): every unguarded rule reference goes to a rule of lower rank,
       every repeated body must consume (Fuel.v, FuelRules.v).
   Also: the comparison builders do not recurse (the pinned tree recursed for ever on two operands of
   equal rank, D1), and syntax errors point inside the path.
   What remains outside the theorem: that the Go parser generated from jsonpath.peg behaves like the
   interpreter and that the Go actions behave like Actions.v — decided by the correspondence check
   (accept/reject, error, position, tree dumps; isolated workers with a time limit). *)
From JP Require Import Peg Grammar Text Tree Actions WF PegFacts ParseFacts CompareFacts StackRules FuelRules.

Theorem C02_parse_total : forall cfg parse_float regex_ok input,
  (exists t, parse_with cfg parse_float regex_ok jsonpath_grammar input = ParseOk t) \/
  (exists e, parse_with cfg parse_float regex_ok jsonpath_grammar input = ParseErr e).
Proof. exact parse_total. Qed.
Print Assumptions C02_parse_total.

(* every tree Parse returns satisfies the well-formedness the evaluator theorems assume (WF.wf_node):
   proved by the same checker, whose item types carry the invariants (StackActs.has_ty) *)
Theorem C02_parsed_trees_well_formed : forall cfg parse_float regex_ok input t,
  parse_with cfg parse_float regex_ok jsonpath_grammar input = ParseOk t -> WF.wf_node t = true.
Proof. exact parse_builds_wf. Qed.
Print Assumptions C02_parsed_trees_well_formed.

Theorem C02_no_crash_site : forall cfg parse_float regex_ok input s,
  parse_with cfg parse_float regex_ok jsonpath_grammar input = ParseCrash s -> peg_parse jsonpath_grammar input = PFuel.
Proof. exact parse_never_crashes. Qed.
Print Assumptions C02_no_crash_site.

Theorem C02_fuel_suffices : forall s, peg_parse jsonpath_grammar s <> PFuel.
Proof. exact peg_never_out_of_fuel. Qed.
Print Assumptions C02_fuel_suffices.

Theorem C02_peg_never_fails : forall s, peg_parse jsonpath_grammar s <> PFail.
Proof. intros s. exact (expression_total (parse_fuel s) s 0). Qed.
Print Assumptions C02_peg_never_fails.

Theorem C02_compare_builder_total : forall c l r st,
  exists l' r' c', push_compare_ord c l r st = push (IQuery (QCmp l' r' c')) st /\ rank l' <= rank r'.
Proof. exact push_compare_ord_ordered. Qed.
Print Assumptions C02_compare_builder_total.

Theorem C02_syntax_error_inside : forall cfg parse_float regex_ok g input p r,
  parse_with cfg parse_float regex_ok g input = ParseErr (ESyntax p r) -> p <= List.length input.
Proof. exact syntax_error_inside. Qed.
Print Assumptions C02_syntax_error_inside.
