(* ErrRefine.v — the evaluator model reports exactly the error of the specification ErrSpec.serr (C15):
   started on an empty container, retrieve returns the error serr computes (and none when serr says
   the step succeeds), for every well-formed tree, every document and every state. *)
From JP Require Import Eval WF Verdict Spec ErrSpec SliceProofs EvalInv1 EvalInv2 EvalInv3 EvalInv4 Refine1 Refine2.
From Coq Require Import Lia.
Open Scope string_scope.
Open Scope list_scope.

(* ---------- the error bookkeeping of a loop, abstractly ---------- *)
Definition abs (s : lstate) : option (nat * option rerr) :=
  let '(c, dl, de, _) := s in match c with [] => Some (dl, de) | _ => None end.
Definition astep (a : option (nat * option rerr)) (o : bout) : option (nat * option rerr) :=
  match a with
  | None => None
  | Some sd => match o with BOk => None | BErr e => Some (sel_step sd e) | BNop => Some sd end
  end.

Lemma astep_none : forall os, fold_left astep os None = None.
Proof. induction os as [|o os IH]; cbn [fold_left astep]; [reflexivity|exact IH]. Qed.
Lemma astep_fold : forall os sd,
  fold_left astep os (Some sd) =
  if existsb is_ok os then None else Some (fold_left sel_step (errs_of os) sd).
Proof.
  induction os as [|o os IH]; intros sd; cbn [fold_left existsb errs_of flat_map]; [reflexivity|].
  destruct o as [|e|]; cbn [astep is_ok orb app].
  - apply astep_none.
  - rewrite IH. cbn [fold_left]. reflexivity.
  - rewrite IH. reflexivity.
Qed.
Lemma astep_app : forall a b s, fold_left astep (a ++ b) s = fold_left astep b (fold_left astep a s).
Proof. intros. apply fold_left_app. Qed.

Lemma finish_err b s :
  snd (fst (loop_finish b s)) =
  match abs s with
  | None => None
  | Some (dl, de) => Some (match de with Some e => e | None => EMember b end)
  end.
Proof. destruct s as [[[c dl] de] st]. unfold loop_finish, abs. destruct c; reflexivity. Qed.

Lemma loop_err_abs b os :
  match fold_left astep os (Some (0%nat, None)) with
  | None => None
  | Some (dl, de) => Some (match de with Some e => e | None => EMember b end)
  end = loop_err b os.
Proof.
  rewrite astep_fold. unfold loop_err, select. destruct (existsb is_ok os); [reflexivity|].
  destruct (fold_left sel_step (errs_of os) (0%nat, None)) as [dl de]. reflexivity.
Qed.

(* what one branch does to an empty container *)
Definition item_out (f : cont -> estate -> rresult) (o : bout) : Prop :=
  forall st, ok st ->
  match o with
  | BOk => fst (fst (f [] st)) <> []
  | BErr e => fst (fst (f [] st)) = [] /\ snd (fst (f [] st)) = Some e
  | BNop => fst (fst (f [] st)) = [] /\ snd (fst (f [] st)) = None
  end.

Lemma abs_step root st0 c dl de st f o :
  ok st0 -> linv root [] st0 (c, dl, de, st) -> step_ok' root f -> item_out f o ->
  abs (loop_step (f c st) dl de) = astep (abs (c, dl, de, st)) o.
Proof.
  intros Hok Hl Hf Ho.
  assert (Hok' : ok st) by (destruct Hl as [Hfr _]; eapply ok_frame; eassumption).
  destruct c as [|x c'].
  - specialize (Ho st Hok'). cbn [abs astep].
    destruct (f [] st) as [[c1 e1] st1]. cbn [fst snd] in Ho. unfold loop_step.
    destruct o as [|e|].
    + destruct c1 as [|y c1']; [contradiction Ho; reflexivity|]. destruct e1; reflexivity.
    + destruct Ho as [-> ->]. unfold sel_step. cbn [fst snd]. destruct (add_deepest e dl de). reflexivity.
    + destruct Ho as [-> ->]. reflexivity.
  - cbn [abs astep].
    destruct (Hf (x :: c') st Hok') as [Hp|Hid].
    + destruct (f (x :: c') st) as [[c1 e1] st1]. destruct Hp as [_ [r [Hc _]]]. subst c1.
      unfold loop_step. destruct e1; reflexivity.
    + rewrite Hid. reflexivity.
Qed.

(* a fold whose every element contributes a list of branch outcomes *)
Lemma fold_abs {A} root st0 (h : lstate -> A -> lstate) (g : A -> list bout) (xs : list A) :
  (forall s x, In x xs -> linv root [] st0 s -> linv root [] st0 (h s x) /\ abs (h s x) = fold_left astep (g x) (abs s)) ->
  forall s, linv root [] st0 s ->
  linv root [] st0 (fold_left h xs s) /\ abs (fold_left h xs s) = fold_left astep (flat_map g xs) (abs s).
Proof.
  induction xs as [|x xs IH]; intros Hh s Hs; cbn [fold_left flat_map]; [split; [exact Hs|reflexivity]|].
  destruct (Hh s x (or_introl eq_refl) Hs) as [Hl Ha].
  destruct (IH (fun s' y Hy => Hh s' y (or_intror Hy)) (h s x) Hl) as [Hl2 Ha2].
  split; [exact Hl2|]. rewrite Ha2, Ha, astep_app. reflexivity.
Qed.

Lemma run_loop_err {A} root b (f : A -> cont -> estate -> rresult) (o : A -> bout) (xs : list A) st :
  ok st -> (forall x, In x xs -> step_ok' root (f x) /\ item_out (f x) (o x)) ->
  snd (fst (run_loop b f xs [] st)) = loop_err b (map o xs).
Proof.
  intros Hok Hf. unfold run_loop. rewrite finish_err.
  destruct (fold_abs root st (fun s x => let '(c, dl, de, st) := s in loop_step (f x c st) dl de) (fun x => [o x]) xs) with (s := ([] : cont, 0%nat, @None rerr, st)) as [_ Ha].
  - intros s x Hx Hs. split; [apply linv_step'; [exact Hok|exact Hs|apply (proj1 (Hf x Hx))]|].
    destruct s as [[[c dl] de] st1]. cbn [fold_left].
    apply (abs_step root st c dl de st1 (f x) (o x) Hok Hs (proj1 (Hf x Hx)) (proj2 (Hf x Hx))).
  - apply linv_init.
  - rewrite Ha. cbn [abs].
    assert (Hfm : flat_map (fun x => [o x]) xs = map o xs) by (induction xs as [|y ys IH]; cbn; [reflexivity|f_equal; apply IH; intros z Hz; apply Hf; right; exact Hz]).
    rewrite Hfm. apply loop_err_abs.
Qed.

Section ER.
  Variable ffun : string -> value -> option value.
  Variable afun : string -> list value -> option value.
  Variable regex_match : string -> string -> bool.
  Hypothesis ffun_small : forall f v w, small v -> ffun f v = Some w -> small w.
  Hypothesis afun_small : forall f l w, Forall small l -> afun f l = Some w -> small w.

  Notation retrieve := (retrieve ffun afun regex_match).
  Notation retrieve_ids := (retrieve_ids ffun afun regex_match).
  Notation compute := (compute ffun afun regex_match).
  Notation sp := (sp ffun afun regex_match).
  Notation holds := (holds ffun afun regex_match).
  Notation serr := (serr ffun afun regex_match).
  Notation serr_ids := (serr_ids ffun afun regex_match).
  Notation fwd := (fwd ffun afun regex_match).
  Notation map_next := (map_next ffun afun regex_match).
  Notation list_next := (list_next ffun afun regex_match).
  Notation A_node := (A_node ffun afun regex_match ffun_small afun_small).
  Notation A_onode := (A_onode ffun afun regex_match ffun_small afun_small).

  (* ---------- the closures of ErrSpec.serr ---------- *)
  Definition efwd (next : onode) (root : value) (cur' : cursor) : option rerr :=
    match next with OSome nx => serr nx root cur' | ONone => None end.
  Definition ekey (b : basic) next root (cur : cursor) (m : list (string * value)) (key : string) : option rerr :=
    match lookup m key with
    | None => Some (EMember b)
    | Some v => efwd next root (ext_loc (fst cur) (PKey key), v)
    end.
  Definition eidx next root (cur : cursor) (iv : Z * value) : option rerr :=
    efwd next root (ext_loc (fst cur) (PIdx (fst iv)), snd iv).

  Lemma serr_unfold k b next root cur :
    serr (Node k b next) root cur =
    match k with
    | KRoot => efwd next root (Some [], root)
    | KCurrent => efwd next root cur
    | KSingle key => match snd cur with VObj m => ekey b next root cur m key | v => Some (EType b "object" (go_type v)) end
    | KWild =>
        match snd cur with
        | VObj m => loop_err b (map (fun key => of_opt (ekey b next root cur m key)) (sorted_keys m))
        | VArr xs => loop_err b (map (fun iv => of_opt (eidx next root cur iv)) (index_list xs 0))
        | v => Some (EType b "object/array" (go_type v))
        end
    | KMulti ids allWild uq =>
        match snd cur, allWild with
        | VArr _, true => match uq with OSome u => serr u root cur | ONone => None end
        | VObj m, _ => loop_err b (serr_ids ids m root cur)
        | v, _ => Some (EType b "object" (go_type v))
        end
    | KRec mapReq listReq =>
        if is_container (snd cur) then
          match next with
          | ONone => None
          | OSome nx =>
              loop_err b (map (fun cu => match snd cu with
                                         | VObj _ => if mapReq then of_opt (serr nx root cu) else BNop
                                         | VArr _ => if listReq then of_opt (serr nx root cu) else BNop
                                         | _ => BNop
                                         end) (containers (fst cur) (snd cur)))
          end
        else Some (EType b "object/array" (go_type (snd cur)))
    | KUnion subs =>
        match snd cur with
        | VArr xs =>
            loop_err b
              (flat_map (fun sub =>
                 match get_indexes sub (Z.of_nat (List.length xs)) with
                 | IOk idxs => flat_map (fun i => match nth_value xs i with
                                                  | Some v => [of_opt (eidx next root cur (i, v))]
                                                  | None => []
                                                  end) idxs
                 | IPanic => []
                 end) subs)
        | v => Some (EType b "array" (go_type v))
        end
    | KFilter q =>
        match snd cur with
        | VObj m =>
            let keys := sorted_keys m in
            let vals := flat_map (fun k => match lookup m k with Some v => [v] | None => [] end) keys in
            loop_err b (flat_map (fun kb : string * bool => if snd kb then [of_opt (ekey b next root cur m (fst kb))] else [])
                                 (combine keys (holds q root vals)))
        | VArr xs =>
            loop_err b (flat_map (fun ib : (Z * value) * bool => if snd ib then [of_opt (eidx next root cur (fst ib))] else [])
                                 (combine (index_list xs 0) (holds q root xs)))
        | v => Some (EType b "object/array" (go_type v))
        end
    | KFFun f =>
        match ffun f (snd cur) with
        | None => Some (EFunc b)
        | Some v => efwd next root (None, v)
        end
    | KAgg f param =>
        match serr param root cur with
        | Some e => Some e
        | None =>
            let plain := map (fun x => res_value (wrap x)) (sp param root cur) in
            let args := if vgroup (node_basic param) then plain
                        else match plain with VArr xs :: _ => xs | _ => plain end in
            match afun f args with
            | None => Some (EFunc b)
            | Some v => efwd next root (None, v)
            end
        end
    end.
  Proof. destruct k; reflexivity. Qed.

  Definition E_node (n : node) : Prop :=
    wf_node n = true -> forall root cur, small root -> cur_ok root cur ->
    forall st, ok st -> snd (fst (retrieve n root cur [] st)) = serr n root cur.
  Definition E_onode (o : onode) : Prop := match o with OSome n => E_node n | ONone => True end.
  Definition E_nodes (ids : nodes) : Prop :=
    wf_nodes ids = true -> forall m root cur st0 s, small root -> cur_ok root cur -> snd cur = VObj m -> ok st0 ->
    linv root [] st0 s ->
    abs (retrieve_ids ids m root cur s) = fold_left astep (serr_ids ids m root cur) (abs s).
  Definition E_kind (k : kind) : Prop :=
    match k with
    | KMulti ids _ uq => E_nodes ids /\ E_onode uq
    | KAgg _ param => E_node param
    | _ => True
    end.

  (* a call of retrieve as a loop branch *)
  Lemma item_of_step f e root : step_ok root f -> (forall st, ok st -> snd (fst (f [] st)) = e) -> item_out f (of_opt e).
  Proof.
    intros Hf He st Hok. specialize (He st Hok). specialize (Hf [] st Hok).
    destruct (f [] st) as [[c1 e1] st1]. cbn [fst snd] in *. destruct Hf as [_ [r [Hc [H1 [H2 _]]]]]. cbn [app] in Hc. subst r.
    destruct e as [err|]; cbn [of_opt]; subst e1.
    - split; [apply H1; discriminate|reflexivity].
    - apply H2. reflexivity.
  Qed.

  Lemma fwd_err b next root settable cur' :
    E_onode next -> wf_onode next = true -> small root -> cur_ok root cur' ->
    forall st, ok st -> snd (fst (fwd b next root settable cur' [] st)) = efwd next root cur'.
  Proof.
    intros IH Hwf Hr Hc st Hok. unfold EvalInv3.fwd, efwd. destruct next as [|nx]; [reflexivity|].
    apply (IH Hwf root cur' Hr Hc st Hok).
  Qed.
  Lemma map_next_err b next root cur m key :
    E_onode next -> wf_onode next = true -> small root -> cur_ok root cur -> snd cur = VObj m ->
    forall st, ok st -> snd (fst (map_next b next root cur m key [] st)) = ekey b next root cur m key.
  Proof.
    intros IH Hwf Hr Hc Hm st Hok. unfold EvalInv3.map_next, ekey.
    destruct (lookup m key) as [v|] eqn:El; [|reflexivity].
    apply fwd_err; try assumption. apply cur_ok_ext; [exact Hc|]. rewrite Hm. exact El.
  Qed.
  Lemma list_next_err b next root cur xs iv :
    E_onode next -> wf_onode next = true -> small root -> cur_ok root cur -> snd cur = VArr xs ->
    step_into (VArr xs) (PIdx (fst iv)) = Some (snd iv) ->
    forall st, ok st -> snd (fst (list_next b next root cur iv [] st)) = eidx next root cur iv.
  Proof.
    intros IH Hwf Hr Hc Hm Hs st Hok. unfold EvalInv3.list_next, eidx.
    apply fwd_err; try assumption. apply cur_ok_ext; [exact Hc|]. rewrite Hm. exact Hs.
  Qed.

  Lemma item_map_next b next root cur m key :
    E_onode next -> wf_onode next = true -> small root -> cur_ok root cur -> snd cur = VObj m ->
    item_out (map_next b next root cur m key) (of_opt (ekey b next root cur m key)).
  Proof.
    intros IH Hwf Hr Hc Hm. apply (item_of_step _ _ root).
    - eapply map_next_ok; try eassumption. apply A_onode.
    - apply map_next_err; assumption.
  Qed.
  Lemma item_list_next b next root cur xs iv :
    E_onode next -> wf_onode next = true -> small root -> cur_ok root cur -> snd cur = VArr xs ->
    step_into (VArr xs) (PIdx (fst iv)) = Some (snd iv) ->
    item_out (list_next b next root cur iv) (of_opt (eidx next root cur iv)).
  Proof.
    intros IH Hwf Hr Hc Hm Hs. apply (item_of_step _ _ root).
    - eapply list_next_ok; try eassumption. apply A_onode.
    - eapply list_next_err; eassumption.
  Qed.
  (* ---------- the filter loop ---------- *)
  Lemma filter_loop_err {A} root b (next_of : A -> cont -> estate -> rresult) (o : A -> bout)
        (members : list A) lv (hs : list bool) :
    (forall x, In x members -> step_ok root (next_of x) /\ item_out (next_of x) (o x)) ->
    forall st1, ok st1 -> vl_ok (List.length members) (lget st1 lv) ->
    List.length hs = List.length members ->
    (forall i, (i < List.length members)%nat -> den (List.length members) (lget st1 lv) i = nth i hs false) ->
    snd (fst (filter_loop b next_of members lv [] st1)) =
    loop_err b (flat_map (fun xb : A * bool => if snd xb then [o (fst xb)] else []) (combine members hs)).
  Proof.
    intros Hf st1 Hok Hvl Hlen Hden. unfold filter_loop.
    set (n := List.length members) in *.
    set (vl := lget st1 lv) in *.
    set (is_each := Nat.eqb (List.length vl) n).
    assert (Hst2 : (match vl with [] => if is_each then st1 else set_panic "filter: valueList[0]" st1 | _ => st1 end) = st1).
    { destruct vl as [|x vl'] eqn:Evl; [|reflexivity]. unfold is_each. cbn [List.length].
      destruct Hvl as [H|H]; cbn [List.length] in H; [rewrite <- H; reflexivity|discriminate]. }
    rewrite Hst2.
    set (ws := if is_each then vl else map (fun _ => Some VNull) members).
    set (selb := fun w : entry => negb (is_each && isE w)).
    assert (Hws : List.length ws = n).
    { unfold ws, is_each. destruct (Nat.eqb (List.length vl) n) eqn:E; [apply Nat.eqb_eq; exact E|apply map_length]. }
    destruct (negb is_each && isE (hd_entry vl)) eqn:Eb.
    - cbn [fst snd]. apply andb_true_iff in Eb. destruct Eb as [Ee Eh]. apply negb_true_iff in Ee.
      assert (Hall : forall i, (i < n)%nat -> nth i hs false = false).
      { intros i Hi. rewrite <- Hden by exact Hi. unfold den. fold vl. fold is_each. rewrite Ee, Eh.
        cbn. apply andb_false_r. }
      assert (Hnil : flat_map (fun xb : A * bool => if snd xb then [o (fst xb)] else []) (combine members hs) = []).
      { clear - Hall Hlen. fold n in Hlen. revert hs Hlen Hall. subst n.
        induction members as [|x xs IH]; intros [|h hs] Hl Ha; cbn in *; try reflexivity; try discriminate.
        rewrite (Ha 0%nat ltac:(lia)). cbn. apply IH; [lia|]. intros i Hi. apply (Ha (S i)). lia. }
      rewrite Hnil. reflexivity.
    - rewrite finish_err.
      assert (Hsel : map selb ws = hs).
      { apply (nth_ext _ _ false false); [rewrite map_length; congruence|].
        intros i Hi. rewrite map_length, Hws in Hi.
        rewrite <- Hden by exact Hi.
        rewrite (nth_indep (map selb ws) false (selb (Some VNull))) by (rewrite map_length; lia).
        rewrite map_nth. unfold selb, den. fold vl. fold is_each.
        apply Nat.ltb_lt in Hi. rewrite Hi. cbn [andb]. unfold ws.
        destruct is_each eqn:Ei.
        + cbn [andb]. rewrite (nth_indep vl (Some VNull) None); [reflexivity|].
          apply Nat.ltb_lt in Hi. apply Nat.eqb_eq in Ei. lia.
        + cbn [andb negb] in *. rewrite Eb. reflexivity. }
      rewrite <- Hsel, combine_map_r, flat_map_map. cbn [fst snd].
      destruct (fold_abs root st1
                  (fun (s : lstate) (xv : A * entry) =>
                     let '(c, dl, de, st) := s in
                     if is_each && isE (snd xv) then s else loop_step (next_of (fst xv) c st) dl de)
                  (fun xw : A * entry => if selb (snd xw) then [o (fst xw)] else []) (combine members ws))
        with (s := ([] : cont, 0%nat, @None rerr, st1)) as [_ Ha].
      + intros s [x w] Hin Hs. destruct s as [[[c' dl] de] st']. cbn [fst snd]. unfold selb.
        destruct (is_each && isE w); cbn [negb].
        * split; [exact Hs|reflexivity].
        * apply in_combine_l in Hin. split.
          -- apply (linv_step' root [] st1 (c', dl, de, st') (next_of x) Hok Hs). apply step_ok_weaken. apply (proj1 (Hf x Hin)).
          -- cbn [fold_left]. apply (abs_step root st1 c' dl de st' (next_of x) (o x) Hok Hs).
             ++ apply step_ok_weaken. apply (proj1 (Hf x Hin)).
             ++ apply (proj2 (Hf x Hin)).
      + apply linv_init.
      + rewrite Ha. cbn [abs]. apply loop_err_abs.
  Qed.

  Lemma A_nodes ids : P_nodes ffun afun regex_match ids.
  Proof. destruct (evaluator_invariant ffun afun regex_match ffun_small afun_small) as (_ & _ & _ & HN & _). apply HN. Qed.

  Lemma nodes_case_err id rest : E_node id -> E_nodes rest -> E_nodes (NCons id rest).
  Proof.
    intros IHid IHrest Hwf m root cur st0 s Hr Hc Hm Hok Hs.
    cbn [wf_nodes] in Hwf. apply andb_true_iff in Hwf. destruct Hwf as [Hwid Hwrest].
    rewrite retrieve_ids_unfold. destruct s as [[[c dl] de] st]. cbv zeta.
    change (serr_ids (NCons id rest) m root cur) with
      ((match node_kind id with
        | KSingle key => match lookup m key with None => BNop | Some _ => of_opt (serr id root cur) end
        | _ => of_opt (serr id root cur)
        end) :: serr_ids rest m root cur).
    cbn [fold_left].
    assert (Hstep : linv root [] st0 (loop_step (retrieve id root cur c st) dl de) /\
                    abs (loop_step (retrieve id root cur c st) dl de) = astep (abs (c, dl, de, st)) (of_opt (serr id root cur))).
    { split.
      - apply (linv_step' root [] st0 (c, dl, de, st) (retrieve id root cur) Hok Hs). apply step_ok_weaken. apply A_node; assumption.
      - apply (abs_step root st0 c dl de st (retrieve id root cur) _ Hok Hs).
        + apply step_ok_weaken. apply A_node; assumption.
        + apply (item_of_step _ _ root); [apply A_node; assumption|]. intros st' Hok'. apply (IHid Hwid root cur Hr Hc st' Hok'). }
    destruct Hstep as [Hl Ha].
    destruct (node_kind id) eqn:Ek;
      try (rewrite (IHrest Hwrest m root cur st0 _ Hr Hc Hm Hok Hl), Ha; reflexivity).
    destruct (lookup m key) eqn:El.
    - rewrite (IHrest Hwrest m root cur st0 _ Hr Hc Hm Hok Hl), Ha. reflexivity.
    - rewrite (IHrest Hwrest m root cur st0 _ Hr Hc Hm Hok Hs).
      destruct (abs (c, dl, de, st)); reflexivity.
  Qed.
  Notation Q_query := (Q_query ffun afun regex_match).
  Lemma R_query q : Q_query q.
  Proof. destruct (refinement ffun afun regex_match ffun_small afun_small) as (_ & _ & _ & _ & HQ & _). apply HQ. Qed.
  Lemma R_node n : Refine1.Q_node ffun afun regex_match n.
  Proof. destruct (refinement ffun afun regex_match ffun_small afun_small) as (HN & _). apply HN. Qed.

  (* ---------- every node ---------- *)
  Lemma node_err k b next : E_kind k -> E_onode next -> E_node (Node k b next).
  Proof.
    intros IHk IHn Hwf root cur Hr Hc st Hok.
    cbn [wf_node] in Hwf. apply andb_true_iff in Hwf. destruct Hwf as [Hk Hnx].
    change (match next with OSome m => wf_node m | ONone => true end) with (wf_onode next) in Hnx.
    rewrite retrieve_unfold, serr_unfold.
    destruct k as [| |key| |ids aw uq|mr lr|subs|q|f|f param].
    - apply fwd_err; try assumption. apply cur_ok_root. exact Hr.
    - apply fwd_err; assumption.
    - destruct (snd cur) eqn:E; try reflexivity. eapply map_next_err; eassumption.
    - (* wildcard *)
      destruct (snd cur) eqn:E; try reflexivity.
      + apply (run_loop_err root). exact Hok. intros [i v] Hin. split.
        * apply step_ok_weaken. eapply list_next_ok; try eassumption; try apply A_onode. apply index_list_step. exact Hin.
        * eapply item_list_next; try eassumption. apply index_list_step. exact Hin.
      + apply (run_loop_err root). exact Hok. intros key Hin. split.
        * apply step_ok_weaken. eapply map_next_ok; try eassumption; apply A_onode.
        * eapply item_map_next; eassumption.
    - (* multi *)
      destruct IHk as [IHids IHuq]. apply andb_true_iff in Hk. destruct Hk as [Hids Huq].
      destruct (snd cur) eqn:E; try (destruct aw; reflexivity).
      + destruct aw; [|reflexivity].
        destruct uq as [|u]; [discriminate|]. apply (IHuq Huq root cur Hr Hc st Hok).
      + assert (Hl : snd (fst (loop_finish b (retrieve_ids ids m root cur ([], 0%nat, None, st)))) = loop_err b (serr_ids ids m root cur)).
        { rewrite finish_err.
          rewrite (IHids Hids m root cur st ([], 0%nat, None, st) Hr Hc E Hok (linv_init root [] st)).
          cbn [abs]. apply loop_err_abs. }
        destruct aw; exact Hl.
    - (* recursive descent *)
      destruct (is_container (snd cur)) eqn:Ec; [|reflexivity].
      destruct next as [|nx]; [discriminate|].
      change (run_loop b (fun cu c st => match snd cu with
                                         | VObj _ => if mr then retrieve nx root cu c st else (c, None, st)
                                         | VArr _ => if lr then retrieve nx root cu c st else (c, None, st)
                                         | _ => (c, None, st)
                                         end) (containers (fst cur) (snd cur)) [] st)
        with (run_loop b (rec_step ffun afun regex_match nx mr lr root) (containers (fst cur) (snd cur)) [] st).
      apply (run_loop_err root). exact Hok. intros cu Hin.
      destruct cur as [l v]. cbn [fst snd] in Hin.
      destruct (containers_cur_ok root v l Hc cu Hin) as [Hcu _].
      assert (Hnop : forall (g : cont -> estate -> rresult), (forall c s, g c s = (c, None, s)) -> step_ok' root g /\ item_out g BNop).
      { intros g Hg. split; [intros c s _; right; apply Hg|intros s _; rewrite Hg; split; reflexivity]. }
      assert (Hnode : step_ok' root (retrieve nx root cu) /\ item_out (retrieve nx root cu) (of_opt (serr nx root cu))).
      { split; [apply step_ok_weaken; apply A_node; assumption|].
        apply (item_of_step _ _ root); [apply A_node; assumption|]. intros s Hs. apply (IHn Hnx root cu Hr Hcu s Hs). }
      unfold rec_step. destruct (snd cu) eqn:E; try (apply Hnop; reflexivity).
      * destruct lr; [exact Hnode|apply Hnop; reflexivity].
      * destruct mr; [exact Hnode|apply Hnop; reflexivity].
    - (* union *)
      destruct (snd cur) eqn:E; try reflexivity.
      rename l into xs.
      rewrite finish_err. rewrite forallb_forall in Hk.
      assert (Hlen : (0 <= Z.of_nat (List.length xs) < two62)%Z).
      { apply small_arr_len. destruct Hc as [_ Hsm]. rewrite E in Hsm. exact Hsm. }
      destruct (fold_abs root st (union_outer ffun afun regex_match b next root cur xs)
                  (fun sub => match get_indexes sub (Z.of_nat (List.length xs)) with
                              | IOk idxs => flat_map (fun i => match nth_value xs i with
                                                               | Some v => [of_opt (eidx next root cur (i, v))]
                                                               | None => []
                                                               end) idxs
                              | IPanic => []
                              end) subs) with (s := ([] : cont, 0%nat, @None rerr, st)) as [_ Ha].
      + intros s sub Hin Hs. unfold union_outer.
        pose proof (sub_okb_built sub (Hk sub Hin)) as Hb.
        destruct (get_indexes_total sub _ Hlen Hb) as [idxs [Hg Hrange]]. rewrite Hg.
        apply (fold_abs root st (union_inner ffun afun regex_match b next root cur xs)
                 (fun i => match nth_value xs i with Some v => [of_opt (eidx next root cur (i, v))] | None => [] end) idxs); [|exact Hs].
        intros s' i Hi Hs'. unfold union_inner. destruct s' as [[[c' dl] de] st'].
        destruct (nth_value_some xs i (Hrange i Hi)) as [v Hv]. rewrite Hv. cbn [fold_left]. split.
        * apply (linv_step' root [] st (c', dl, de, st') (list_next b next root cur (i, v)) Hok Hs').
          apply step_ok_weaken. eapply list_next_ok; try eassumption; apply A_onode.
        * apply (abs_step root st c' dl de st' (list_next b next root cur (i, v)) _ Hok Hs').
          -- apply step_ok_weaken. eapply list_next_ok; try eassumption; apply A_onode.
          -- eapply item_list_next; eassumption.
      + apply linv_init.
      + rewrite Ha. cbn [abs]. apply loop_err_abs.
    - (* filter *)
      destruct (snd cur) eqn:E; try reflexivity.
      + assert (Hsm : Forall small l) by (apply small_arr_forall; destruct Hc as [_ H]; rewrite E in H; exact H).
        pose proof (R_query q Hk root l st Hr Hsm Hok) as Hq. pose proof (A_query ffun afun regex_match ffun_small afun_small q root l st Hk Hr Hsm Hok) as Aq.
        destruct (compute q root l st) as [lv st1]. destruct Aq as [Hfr Hvl]. destruct Hq as [Hlen Hden].
        assert (Hok1 : ok st1) by (eapply ok_frame; eassumption).
        apply (filter_loop_err root b (list_next b next root cur) (fun iv => of_opt (eidx next root cur iv)) (index_list l 0) lv (holds q root l)).
        * intros [i v] Hin. split.
          -- eapply list_next_ok; try eassumption; try apply A_onode. apply index_list_step. exact Hin.
          -- eapply item_list_next; try eassumption. apply index_list_step. exact Hin.
        * exact Hok1.
        * rewrite index_list_length. exact Hvl.
        * rewrite index_list_length. exact Hlen.
        * rewrite index_list_length. exact Hden.
      + cbv zeta.
        set (keys := sorted_keys m).
        set (vals := flat_map (fun k => match lookup m k with Some v => [v] | None => [] end) keys).
        assert (Hsm : Forall small vals) by (apply member_values_small; destruct Hc as [_ H]; rewrite E in H; exact H).
        assert (Hvlen : List.length vals = List.length keys).
        { unfold vals. apply member_values_length. intros k Hk'. apply sorted_keys_lookup. exact Hk'. }
        pose proof (R_query q Hk root vals st Hr Hsm Hok) as Hq. pose proof (A_query ffun afun regex_match ffun_small afun_small q root vals st Hk Hr Hsm Hok) as Aq.
        destruct (compute q root vals st) as [lv st1]. destruct Aq as [Hfr Hvl]. destruct Hq as [Hlen Hden].
        assert (Hok1 : ok st1) by (eapply ok_frame; eassumption).
        rewrite Hvlen in *.
        apply (filter_loop_err root b (map_next b next root cur m) (fun key => of_opt (ekey b next root cur m key)) keys lv (holds q root vals)); try assumption.
        intros k Hin. split.
        -- eapply map_next_ok; try eassumption; apply A_onode.
        -- eapply item_map_next; eassumption.
    - (* filter function *)
      cbv zeta. destruct (ffun f (snd cur)) as [v|] eqn:Ef; [|reflexivity].
      assert (Hok1 : ok (log_call (CallF f (snd cur)) st)) by (eapply ok_frame; [exact Hok|apply frame_log_call]).
      apply fwd_err; try assumption.
      apply cur_ok_none. eapply ffun_small; [|exact Ef]. apply Hc.
    - (* aggregate function *)
      pose proof (A_node param root cur Hk Hr Hc [] st Hok) as Hp.
      pose proof (R_node param Hk root cur Hr Hc [] st Hok) as Heq.
      pose proof (IHk Hk root cur Hr Hc st Hok) as Herr. unfold post in Hp.
      destruct (retrieve param root cur [] st) as [[vals e] st1]. cbn [fst snd app] in Heq, Herr.
      destruct Hp as [Hfr [r [Hvals [He1 [He2 Hloc]]]]]. cbn [app] in Hvals. subst r.
      cbv zeta. rewrite <- Herr.
      destruct e as [err|]; [reflexivity|].
      specialize (He2 eq_refl).
      assert (Hplain : map res_value vals = map (fun x => res_value (wrap x)) (sp param root cur)).
      { rewrite Heq, map_map. reflexivity. }
      rewrite Hplain.
      match goal with |- context [afun f ?a] => set (args := a) end.
      assert (Hargs : Forall small args).
      { assert (Hpl : Forall small (map (fun x => res_value (wrap x)) (sp param root cur))).
        { rewrite <- Hplain. apply Forall_forall. intros v Hv'. apply in_map_iff in Hv'. destruct Hv' as [y [<- Hy]].
          rewrite Forall_forall in Hloc. eapply res_value_small. apply Hloc. exact Hy. }
        unfold args. destruct (vgroup (node_basic param)); [exact Hpl|].
        destruct (map (fun x => res_value (wrap x)) (sp param root cur)) as [|v0 rest]; [exact Hpl|]. destruct v0; try exact Hpl.
        apply small_arr_forall. inversion Hpl; assumption. }
      destruct (afun f args) as [v|] eqn:Ea; [|reflexivity].
      match goal with |- context [log_call (CallA f args) ?s2] => assert (Hok3 : ok (log_call (CallA f args) s2)) end.
      { eapply ok_frame; [|apply frame_log_call].
        destruct (vgroup (node_basic param)); [eapply ok_frame; eassumption|].
        destruct vals; [contradiction He2; reflexivity|eapply ok_frame; eassumption]. }
      apply fwd_err; try assumption.
      apply cur_ok_none. eapply afun_small; eassumption.
  Qed.

  Theorem err_refinement :
    (forall n, E_node n) /\ (forall o, E_onode o) /\ (forall k, E_kind k) /\ (forall ns, E_nodes ns) /\
    (forall q : query, True) /\ (forall cp : cparam, True) /\ (forall p : pquery, True).
  Proof.
    apply tree_mutind; try (intros; exact I).
    - intros k IHk b next IHn. apply node_err; assumption.
    - intros n IH. exact IH.
    - intros ids IHids aw uq IHuq. split; assumption.
    - intros f param IH. exact IH.
    - intros _ m root cur st0 s _ _ _ _ _. rewrite retrieve_ids_unfold. reflexivity.
    - intros id IHid rest IHrest. apply nodes_case_err; assumption.
  Qed.

  (* a failing retrieval reports exactly the error of the specification; a successful one none *)
  Corollary retrieve_error n root cur st : wf_node n = true -> small root -> cur_ok root cur -> ok st ->
    snd (fst (retrieve n root cur [] st)) = serr n root cur.
  Proof. intros Hwf Hr Hc Hok. exact (proj1 err_refinement n Hwf root cur Hr Hc st Hok). Qed.
End ER.
