(* KeyFilt.v — a member name inside a FILTER operand, from the path text (C16): `$[?(@['k'])]`, `$[?(@["k"])]`, `$[?(@.k)]` select
   exactly the members of the document that are objects having a member named k — in member order — and `$[?(!@…)]` exactly the
   others, for every key the spelling can express. *)
From JP Require Import Peg Grammar Slice Text Tree Actions Json Eval WF Spec SortFacts EvalInv1 EvalInv4 EvalTop EndToEnd KeyDefs KeyParse ChainParse ChainAddr FiltParse FiltChain FiltAddr FiltChainAddr ErrNames BoolText.
Open Scope list_scope.

(* is the value an object with a member named by the step? *)
Definition has_member (s : kstep) (v : value) : bool :=
  match v with VObj m => match lookup m (step_key s) with Some _ => true | None => false end | _ => false end.

Lemma reaches_name s v : is_name s = true -> reaches [RPlain s] v = has_member s v.
Proof.
  intros Hs. unfold reaches, has_member. cbn [nav_all nav1r flat_map].
  destruct s as [q k|k|ds|w|a b c|u us]; try discriminate Hs; cbn [nav1 snd nav];
    (destruct v as [|bb|x|s0 x|s0|xs|m|t i s0]; try reflexivity; destruct (lookup m _); reflexivity).
Qed.

Section KeyFilt.
  Variable cfg : config.
  Variable parse_float : string -> option num.
  Variable regex_ok : string -> bool.
  Variable ffun : string -> value -> option value.
  Variable afun : string -> list value -> option value.
  Variable regex_match : string -> string -> bool.
  Hypothesis ffun_small : forall f v w, small v -> ffun f v = Some w -> small w.
  Hypothesis afun_small : forall f l w, Forall small l -> afun f l = Some w -> small w.
  Notation parse := (parse_with cfg parse_float regex_ok jsonpath_grammar).
  Notation eval_run := (eval_run ffun afun regex_match).

  (* `$[?(@ name)]` (neg = false) and `$[?(!@ name)]` (neg = true) *)
  Definition name_filter (neg : bool) (s : kstep) : fstep := if neg then FN [RPlain s] else FE [RPlain s].

  Theorem name_in_filter_operand neg s doc st : step_ok s = true -> is_name s = true -> small doc -> ok st ->
    exists t, parse (fchain_path [name_filter neg s]) = ParseOk t /\
              match filter (fun m => xorb neg (has_member s (snd m))) (members ([], doc)) with
              | [] => exists e, fst (eval_run t doc st) = OErr e
              | l => fst (eval_run t doc st) = OOk (map (loc_result cfg) l)
              end.
  Proof.
    intros Hs Hn Hd Hok.
    assert (Hok1 : forallb fstep_ok [name_filter neg s] = true) by (destruct neg; cbn [name_filter forallb fstep_ok rstep_ok]; rewrite Hs; reflexivity).
    assert (Hok2 : forallb (fstep_okp parse_float regex_ok) [name_filter neg s] = true) by (destruct neg; reflexivity).
    destruct (fchain_retrieval cfg parse_float regex_ok ffun afun regex_match ffun_small afun_small (name_filter neg s) [] doc st Hok1 Hok2 Hd Hok) as (t & Hp & H).
    exists t. split; [exact Hp|].
    assert (E : nav_allf parse_float regex_match doc [name_filter neg s] ([], doc) =
                filter (fun m => xorb neg (has_member s (snd m))) (members ([], doc))).
    { cbn [FiltChainAddr.nav_allf]. rewrite flat_map_single.
      rewrite (filter_step_selects parse_float regex_match doc (name_filter neg s) ([], doc)) by (destruct neg; reflexivity).
      rewrite map_id. apply filter_ext'. intros m. destruct neg; cbn [name_filter verdict xorb]; rewrite (reaches_name s (snd m) Hn); [reflexivity|destruct (has_member s (snd m)); reflexivity]. }
    rewrite E in H. exact H.
  Qed.
End KeyFilt.
