(* C08Text.v — P followed by Q is Q applied to every value P selects, from the path text: for paths of steps and filters
   (no `$`-rooted operand, no aggregate: none of these steps has one), the values `$` P Q returns from a document are the
   concatenation, in the order P reaches them, of the values `$` Q returns from each value P reaches; a value from which
   `$` Q fails contributes nothing; the whole fails exactly when nothing is left. *)
From JP Require Import Peg Grammar Slice Text Tree Actions Json Eval WF Spec SortFacts EvalInv1 EvalInv4 EvalTop EndToEnd Codec KeyDefs KeyParse IdxParse SliceParse UnionParse WildParse RecParse ChainParse SpacePath FunParse AggParse FiltParse CmpParse NegFilt QueryParse FiltChain ChainAddr FunAddr AggAddr FiltAddr CmpAddr QueryAddr FiltChainAddr SpecRootFree.
From Coq Require Import Lia.
Open Scope list_scope.

(* the same values, whatever the locations *)
Definition vrel (a b : list (list pstep * value)) : Prop := Forall2 (fun x y => snd x = snd y) a b.
Lemma vrel_app a b c d : vrel a b -> vrel c d -> vrel (a ++ c) (b ++ d).
Proof. apply Forall2_app. Qed.
Lemma vrel_flat_same {A} (f g : A -> list (list pstep * value)) l : (forall a, vrel (f a) (g a)) -> vrel (flat_map f l) (flat_map g l).
Proof. intros H. induction l as [|a l IH]; [constructor|]. cbn [flat_map]. apply vrel_app; [apply H|exact IH]. Qed.
Lemma vrel_flat (f g : list pstep * value -> list (list pstep * value)) a b :
  vrel a b -> (forall x y, snd x = snd y -> vrel (f x) (g y)) -> vrel (flat_map f a) (flat_map g b).
Proof. intros H Hf. induction H as [|x y a b Hxy _ IH]; [constructor|]. cbn [flat_map]. apply vrel_app; [apply Hf; exact Hxy|exact IH]. Qed.
Lemma vrel_values a b : vrel a b -> map snd a = map snd b.
Proof. induction 1 as [|x y a b Hxy _ IH]; [reflexivity|]. cbn [map]. rewrite Hxy, IH. reflexivity. Qed.
Lemma vrel_one l l' (v : value) : vrel [(l, v)] [(l', v)].
Proof. constructor; [reflexivity|constructor]. Qed.
Lemma vrel_opt l l' (o : option value) : vrel (match o with Some x => [(l, x)] | None => [] end) (match o with Some x => [(l', x)] | None => [] end).
Proof. destruct o; [apply vrel_one|constructor]. Qed.

Lemma nav1_vrel s l l' v : vrel (nav1 s (l, v)) (nav1 s (l', v)).
Proof.
  destruct s as [q k|k|ds|d|a b c0|u us]; cbn [nav1 fst snd]; try apply vrel_opt.
  - destruct v; try constructor.
    + induction (index_list l0 0) as [|iv r IH]; [constructor|]. cbn [map]. constructor; [reflexivity|exact IH].
    + apply vrel_flat_same. intros k. apply vrel_opt.
  - destruct v; try constructor. apply vrel_flat_same. intros i. apply vrel_opt.
  - destruct v; try constructor. apply vrel_flat_same. intros w. apply vrel_flat_same. intros i. apply vrel_opt.
Qed.
Lemma nav1r_vrel x l l' v : vrel (nav1r x (l, v)) (nav1r x (l', v)).
Proof.
  destruct x as [s|s]; cbn [nav1r fst snd]; [apply nav1_vrel|].
  pose proof (containers_same_val v (Some l) (Some l')) as H.
  induction H as [|cu cu' a b Hc _ IH]; [constructor|]. cbn [flat_map]. apply vrel_app; [|exact IH].
  unfold same_val in Hc. rewrite Hc. apply nav1_vrel.
Qed.
Lemma navp_vrel h l l' v : vrel (navp h (l, v)) (navp h (l', v)).
Proof.
  unfold navp. cbn [fst snd]. destruct v; try constructor.
  - apply vrel_flat_same. intros iv. destruct (h (snd iv)); [apply vrel_one|constructor].
  - apply vrel_flat_same. intros k. destruct (lookup m k) as [x|]; [|constructor]. destruct (h x); [apply vrel_one|constructor].
Qed.

Section C08Text.
  Variable cfg : config.
  Variable parse_float : string -> option num.
  Variable regex_ok : string -> bool.
  Variable ffun : string -> value -> option value.
  Variable afun : string -> list value -> option value.
  Variable regex_match : string -> string -> bool.
  Hypothesis ffun_small : forall f v w, small v -> ffun f v = Some w -> small w.
  Hypothesis afun_small : forall f l w, Forall small l -> afun f l = Some w -> small w.
  Hypothesis plain_mode : cfg_accessor cfg = false.
  Notation parse := (parse_with cfg parse_float regex_ok jsonpath_grammar).
  Notation eval_run := (eval_run ffun afun regex_match).
  Notation nav1f := (nav1f parse_float regex_match).
  Notation nav_allf := (nav_allf parse_float regex_match).

  Lemma nav1f_vrel root x : forall l l' v, vrel (nav1f root x (l, v)) (nav1f root x (l', v)).
  Proof.
    induction x as [y|i|i o lit|i|d|y IH|i g0 a o b g1 lit|neg g0 gn i g1|g0' d'|t']; intros l l' v; cbn [FiltChainAddr.nav1f]; [apply nav1r_vrel|apply navp_vrel|apply navp_vrel|apply navp_vrel|apply navp_vrel| |apply navp_vrel|destruct neg; apply navp_vrel|apply navp_vrel|apply navp_vrel].
    cbn [fst snd]. pose proof (containers_same_val v (Some l) (Some l')) as H.
    induction H as [|cu cu' a b Hc _ IHc]; [constructor|]. cbn [flat_map]. apply vrel_app; [|exact IHc].
    unfold same_val in Hc. rewrite Hc. apply IH.
  Qed.

  Lemma nav_allf_vrel root q : forall lv lv', snd lv = snd lv' -> vrel (nav_allf root q lv) (nav_allf root q lv').
  Proof.
    induction q as [|x r IH]; intros [l v] [l' v'] E; cbn [snd] in E; subst v'; cbn [FiltChainAddr.nav_allf].
    - apply vrel_one.
    - apply vrel_flat; [apply nav1f_vrel|]. intros a b Hab. apply IH. exact Hab.
  Qed.

  Lemma nav_allf_app root p q lv : nav_allf root (p ++ q) lv = flat_map (nav_allf root q) (nav_allf root p lv).
  Proof.
    revert lv. induction p as [|x r IH]; intros lv; cbn [app FiltChainAddr.nav_allf].
    - cbn [flat_map]. rewrite app_nil_r. reflexivity.
    - rewrite flat_map_flat_map. apply flat_map_ext'. intros a. apply IH.
  Qed.

  Lemma nav_allf_small root q : forall lv, small (snd lv) -> Forall (fun a => small (snd a)) (nav_allf root q lv).
  Proof.
    induction q as [|x r IH]; intros [l v] Hsm; cbn [FiltChainAddr.nav_allf]; [constructor; [exact Hsm|constructor]|].
    apply Forall_forall. intros a Hin. apply in_flat_map in Hin. destruct Hin as [b [Hb Ha]].
    pose proof (nav1f_small parse_float regex_match root x l v Hsm) as Hn. rewrite Forall_forall in Hn.
    pose proof (IH b (Hn b Hb)) as Hr. rewrite Forall_forall in Hr. exact (Hr a Ha).
  Qed.

  (* the values a call returns; nothing when it fails *)
  Definition vals_of (o : outcome) : list value := match o with OOk rs => map res_value rs | _ => [] end.

  Lemma values_of_path x r doc st t : forallb fstep_ok (x :: r) = true -> forallb (fstep_okp parse_float regex_ok) (x :: r) = true -> small doc -> ok st ->
    parse (fchain_path (x :: r)) = ParseOk t ->
    vals_of (fst (eval_run t doc st)) = map snd (nav_allf doc (x :: r) ([], doc)) /\
    ((exists e, fst (eval_run t doc st) = OErr e) <-> nav_allf doc (x :: r) ([], doc) = []).
  Proof.
    intros Hs Hp Hd Hok Ht.
    destruct (fchain_retrieval cfg parse_float regex_ok ffun afun regex_match ffun_small afun_small x r doc st Hs Hp Hd Hok) as (t' & Ht' & H).
    rewrite Ht in Ht'. inversion Ht'; subst t'.
    destruct (nav_allf doc (x :: r) ([], doc)) as [|a l].
    - destruct H as [e He]. rewrite He. split; [reflexivity|]. split; [reflexivity|]. intros _. exists e. reflexivity.
    - rewrite H. split.
      + cbn [vals_of]. rewrite map_map. apply map_ext. intros [l0 z]. unfold loc_result. rewrite plain_mode. reflexivity.
      + split; [intros [e He]; discriminate He|intros E; discriminate E].
  Qed.

  Theorem concatenation_from_text p0 p q0 q doc st :
    forallb fstep_ok ((p0 :: p) ++ q0 :: q) = true -> forallb (fstep_okp parse_float regex_ok) ((p0 :: p) ++ q0 :: q) = true ->
    forallb (fstep_rootfree) (q0 :: q) = true -> small doc -> ok st ->
    exists tpq tq,
      parse (fchain_path ((p0 :: p) ++ q0 :: q)) = ParseOk tpq /\ parse (fchain_path (q0 :: q)) = ParseOk tq /\
      vals_of (fst (eval_run tpq doc st)) =
        flat_map (fun lv => vals_of (fst (eval_run tq (snd lv) st))) (nav_allf doc (p0 :: p) ([], doc)) /\
      ((exists e, fst (eval_run tpq doc st) = OErr e) <->
       flat_map (fun lv => vals_of (fst (eval_run tq (snd lv) st))) (nav_allf doc (p0 :: p) ([], doc)) = []).
  Proof.
    intros Hs Hp Hrf Hd Hok.
    assert (Hsq : forallb fstep_ok (q0 :: q) = true) by (rewrite forallb_app in Hs; apply andb_true_iff in Hs; exact (proj2 Hs)).
    assert (Hpq : forallb (fstep_okp parse_float regex_ok) (q0 :: q) = true) by (rewrite forallb_app in Hp; apply andb_true_iff in Hp; exact (proj2 Hp)).
    exists (fchain_node cfg parse_float ((p0 :: p) ++ q0 :: q)), (fchain_node cfg parse_float (q0 :: q)).
    pose proof (parse_fchain_path cfg parse_float regex_ok p0 (p ++ q0 :: q) Hs Hp) as T1.
    pose proof (parse_fchain_path cfg parse_float regex_ok q0 q Hsq Hpq) as T2.
    split; [exact T1|]. split; [exact T2|].
    destruct (values_of_path p0 (p ++ q0 :: q) doc st _ Hs Hp Hd Hok T1) as [V1 F1].
    assert (Hinner : forall lv, In lv (nav_allf doc (p0 :: p) ([], doc)) ->
              vals_of (fst (eval_run (fchain_node cfg parse_float (q0 :: q)) (snd lv) st)) = map snd (nav_allf doc (q0 :: q) lv)).
    { intros [l v] Hin. pose proof (nav_allf_small doc (p0 :: p) ([], doc) Hd) as Hsm. rewrite Forall_forall in Hsm.
      destruct (values_of_path q0 q v st _ Hsq Hpq (Hsm _ Hin) Hok T2) as [V2 _]. cbn [snd]. rewrite V2, (nav_allf_rootfree parse_float regex_match v doc (q0 :: q) Hrf).
      apply vrel_values. apply nav_allf_vrel. reflexivity. }
    assert (E : flat_map (fun lv => vals_of (fst (eval_run (fchain_node cfg parse_float (q0 :: q)) (snd lv) st))) (nav_allf doc (p0 :: p) ([], doc)) =
                map snd (nav_allf doc ((p0 :: p) ++ q0 :: q) ([], doc))).
    { rewrite nav_allf_app, map_flat_map'. apply flat_map_ext_in'. exact Hinner. }
    rewrite E. split; [exact V1|].
    change ((p0 :: p) ++ q0 :: q) with (p0 :: (p ++ q0 :: q)) in *. rewrite F1.
    destruct (nav_allf doc (p0 :: p ++ q0 :: q) ([], doc)); cbn [map]; split; intros H; try reflexivity; discriminate H.
  Qed.
End C08Text.
