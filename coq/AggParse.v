(* AggParse.v — an aggregate function after the steps of a path, from the path text: `$` steps `.g()` `.f()` ... where g is
   a registered aggregate function (and not also a filter function) and f ... registered filter functions.  The text is
   the one of FunParse (chain_fun_path): which kind a name is, the Config decides.  The tree: the aggregate node holds
   the steps as its parameter (accessor mode cleared there), the filter functions follow it. *)
From JP Require Import Peg Grammar Text Tree Actions PegFacts PegMono PegEv FuelRules ParseFacts KeyDefs KeyParse IdxParse SliceParse UnionParse WildParse RecParse ChainParse SpacePath FunParse.
From Coq Require Import Lia.
Local Open Scope N_scope.
Open Scope list_scope.

(* is the path of these steps a value group (may select several values)? *)
Definition rstep_vg (x : rstep) : bool := match x with RPlain s => step_vg s | RRec _ => true end.
Definition steps_vg (steps : list rstep) : bool := existsb rstep_vg steps.

Section AggExec.
  Variable cfg : config.
  Variable parse_float : string -> option num.
  Variable regex_ok : string -> bool.
  Notation execute := (execute cfg parse_float regex_ok).
  Notation exec_action := (exec_action cfg parse_float regex_ok).
  Notation plainl := (Forall (fun kb : kind * basic => plain_kind (fst kb))).

  Lemma pres_vg steps : any_vg (pres cfg steps) = steps_vg steps.
  Proof.
    induction steps as [|x r IH]; [reflexivity|]. unfold pres. cbn [flat_map steps_vg existsb]. unfold any_vg in *. rewrite existsb_app.
    unfold pres in IH. rewrite IH. destruct x as [s|s]; cbn [rstep_pre existsb snd rstep_vg pre_basic pre_basic_vg rec_basic mk_basic vgroup orb]; [rewrite orb_false_r|]; reflexivity.
  Qed.


  Definition agg_known (g : list N) : bool := negb (mem (text_of g) (cfg_filters cfg)) && mem (text_of g) (cfg_aggs cfg).
  Definition agg_basic (g : list N) : basic := mk_basic (text_of (fun_text g)) false (cfg_accessor cfg).
  Definition anode (g : list N) : node := Node (KAgg (text_of g) nil_node) (agg_basic g) ONone.

  Lemma exec_agg input p g rest ps toks cps b : agg_known g = true -> skipn p input = fun_text g ++ rest ->
    exists cps' b', execute (fun_tokens p g ++ toks) input cps b (mk ps) = execute toks input cps' b' (mk (ps ++ [INode (anode g)])).
  Proof.
    intros Hk Hin. unfold fun_tokens. cbn [app Actions.execute].
    assert (E1 : sub_list input (p + 1) (p + 1 + List.length g) = g).
    { apply (sub_at input p 1 [46] g ([40; 41] ++ rest)); [|reflexivity]. rewrite Hin. unfold fun_text. cbn [app]. rewrite <- app_assoc. reflexivity. }
    rewrite E1.
    change (exec_action 6 g (p + 1) (mk ps)) with (AOk (push (IStr (text_of g)) (mk ps))). cbn [abind].
    assert (E2 : sub_list input p (p + List.length g + 3) = fun_text g).
    { pose proof (sub_at input p 0 [] (fun_text g) rest) as H. rewrite Nat.add_0_r in H.
      replace (p + List.length g + 3)%nat with (p + List.length (fun_text g))%nat by (unfold fun_text; cbn [List.length]; rewrite app_length; cbn [List.length]; lia).
      apply H; [exact Hin|reflexivity]. }
    rewrite E2.
    assert (E5 : exec_action 5 (fun_text g) p (push (IStr (text_of g)) (mk ps)) = AOk (mk (ps ++ [INode (anode g)]))).
    { change (push (IStr (text_of g)) (mk ps)) with (mk (ps ++ [IStr (text_of g)])).
      cbn [Actions.exec_action]. rewrite pop_mk. cbn [abind]. unfold push_function. unfold agg_known in Hk.
      apply andb_true_iff in Hk. destruct Hk as [Hn Ha]. apply negb_true_iff in Hn. rewrite Hn, Ha. reflexivity. }
    rewrite E5. cbn [abind]. eexists _, _. reflexivity.
  Qed.

  (* linking behind a node that is not a multi-name selector *)
  Lemma append_link_nm k b l seg : (forall ids aw uq, k <> KMulti ids aw uq) -> plainl l -> seg <> [] ->
    append_deep (Node k b (link l)) (match seg with x0 :: r => Node (fst x0) (snd x0) (link r) | [] => nil_node end) = Node k b (link (l ++ seg)).
  Proof.
    intros Hk Hl Hseg. destruct l as [|y l'].
    - destruct seg as [|x0 sr]; [contradiction Hseg; reflexivity|]. cbn [link app].
      destruct k; try reflexivity. contradiction (Hk ids allWild uq). reflexivity.
    - inversion Hl as [|? ? Hy Hl']; subst. cbn [link app]. rewrite <- (append_link (fst y) (snd y) l' seg Hy Hl' Hseg).
      destruct k; try reflexivity. contradiction (Hk ids allWild uq). reflexivity.
  Qed.
  Lemma chain_fold_funs_nm k b fs : (forall ids aw uq, k <> KMulti ids aw uq) -> forall l, plainl l ->
    fold_left chain_step (map (fun f => INode (fnode cfg f)) fs) (AOk (Node k b (link l))) = AOk (Node k b (link (l ++ fpres cfg fs))).
  Proof.
    intros Hk. induction fs as [|f r IH]; intros l Hl; cbn [map fold_left]; [cbn [fpres map]; rewrite app_nil_r; reflexivity|].
    change (chain_step (AOk (Node k b (link l))) (INode (fnode cfg f))) with (AOk (append_deep (Node k b (link l)) (fnode cfg f))).
    pose proof (append_link_nm k b l [fpre cfg f] Hk Hl ltac:(discriminate)) as A. cbn [link] in A. unfold fnode. rewrite A.
    rewrite IH by (apply Forall_app; split; [exact Hl|constructor; [split; intros; discriminate|constructor]]).
    cbn [fpres map]. rewrite <- app_assoc. reflexivity.
  Qed.

  (* accessor mode cleared along a chain *)
  Definition cl (l : list (kind * basic)) : list (kind * basic) := map (fun kb => (fst kb, set_accessor false (snd kb))) l.
  Lemma clear_link k b l : (forall ids aw uq, k <> KMulti ids aw uq) -> plainl l ->
    clear_acc (Node k b (link l)) = Node k (set_accessor false b) (link (cl l)).
  Proof.
    intros Hk Hl. revert k b Hk. induction Hl as [|y l Hy Hl IH]; intros k b Hk.
    - cbn [link cl map]. destruct k; try reflexivity. contradiction (Hk ids allWild uq). reflexivity.
    - change (cl (y :: l)) with ((fst y, set_accessor false (snd y)) :: cl l). cbn [link fst snd]. rewrite <- (IH (fst y) (snd y) (proj1 Hy)).
      destruct k; try reflexivity. contradiction (Hk ids allWild uq). reflexivity.
  Qed.
  Lemma cl_plain l : plainl l -> plainl (cl l).
  Proof. intros H. induction H as [|y l Hy Hl IH]; constructor; [exact Hy|exact IH]. Qed.
  Lemma cl_vg l : any_vg (cl l) = any_vg l.
  Proof. induction l as [|y l IH]; [reflexivity|]. cbn [cl map any_vg existsb snd]. unfold cl, any_vg in IH. rewrite IH. reflexivity. Qed.

  (* connected texts with a postfix: what setConnectedText leaves in the parameter of an aggregate *)
  Fixpoint ctxp (p : string) (l : list (kind * basic)) : string :=
    match l with [] => p | x :: r => (text (snd x) ++ ctxp p r)%string end.
  Fixpoint finp (p : string) (l : list (kind * basic)) : onode :=
    match l with [] => ONone | x :: r => OSome (Node (fst x) (set_ctext (text (snd x) ++ ctxp p r) (snd x)) (finp p r)) end.
  Lemma ctxp_nil l : ctxp "" l = ctx l.
  Proof. induction l as [|y l IH]; [reflexivity|]. cbn [ctxp ctx]. rewrite IH. reflexivity. Qed.
  Lemma set_ctext_link_p p k b r : plain_kind k -> plainl r ->
    set_ctext_deep (Node k b (link r)) p = Node k (set_ctext (text b ++ ctxp p r) b) (finp p r).
  Proof.
    intros Hk Hr. revert k b Hk. induction Hr as [|y r Hy Hr IH]; intros k b Hk.
    - cbn [link ctxp finp]. apply set_ctext_last. exact Hk.
    - cbn [link ctxp finp]. rewrite set_ctext_next by exact Hk. rewrite (IH (fst y) (snd y) Hy). reflexivity.
  Qed.
  Lemma set_ctext_agg g P b r : plainl r ->
    set_ctext_deep (Node (KAgg g P) b (link r)) "" =
    Node (KAgg g (set_ctext_deep P (text b ++ ctx r))) (set_ctext (text b ++ ctx r) b) (fin r).
  Proof.
    intros Hr. destruct Hr as [|y r Hy Hr].
    - cbn [link ctx fin]. reflexivity.
    - cbn [link ctx fin].
      assert (E : set_ctext_deep (Node (KAgg g P) b (OSome (Node (fst y) (snd y) (link r)))) "" =
                  Node (KAgg g (set_ctext_deep P (text b ++ ctext (node_basic (set_ctext_deep (Node (fst y) (snd y) (link r)) "")))))
                       (set_ctext (text b ++ ctext (node_basic (set_ctext_deep (Node (fst y) (snd y) (link r)) ""))) b)
                       (OSome (set_ctext_deep (Node (fst y) (snd y) (link r)) ""))) by reflexivity.
      rewrite E, (set_ctext_link _ _ r Hy Hr). reflexivity.
  Qed.

  (* the parameter of the aggregate: the steps, accessor mode cleared, the first one carrying the value-group flag *)
  Definition param_of (p : string) (l : list (kind * basic)) : node :=
    match l with
    | x :: r => Node (fst x) (set_ctext (text (snd x) ++ ctxp p (cl r)) (set_vgroup (any_vg (x :: r)) (set_accessor false (snd x)))) (finp p (cl r))
    | [] => nil_node
    end.
  Definition agg_ctext (g : list N) (fs : list (list N)) : string := (text (agg_basic g) ++ ctx (fpres cfg fs))%string.
  Definition chain_agg_node (steps : list rstep) (g : list N) (fs : list (list N)) : node :=
    Node (KAgg (text_of g) (param_of (agg_ctext g fs) (pres cfg steps))) (set_ctext (agg_ctext g fs) (agg_basic g)) (fin (fpres cfg fs)).

  Lemma any_vg_fpres fs : any_vg (fpres cfg fs) = false.
  Proof. induction fs as [|f r IH]; [reflexivity|]. cbn [fpres map any_vg existsb fpre snd mk_basic vgroup orb]. exact IH. Qed.

  Theorem parse_chain_agg_path s r g fs : forallb rstep_ok (s :: r) = true -> forallb fname_ok (g :: fs) = true ->
    agg_known g = true -> forallb (fun_known cfg) fs = true ->
    parse_with cfg parse_float regex_ok G (chain_fun_path (s :: r) (g :: fs)) = ParseOk (chain_agg_node (s :: r) g fs).
  Proof.
    intros Hs Hf Hg Hk. unfold parse_with, parse_from. rewrite (peg_chain_fun_path (s :: r) (g :: fs) Hs Hf). unfold chain_fun_tokens.
    cbn [Actions.execute].
    change (exec_action 8 [] 0 ps_init) with (AOk (mk [INode (Node KRoot (root_basic cfg) ONone)])). cbn [abind].
    assert (Hsk : skipn 1 (chain_fun_path (s :: r) (g :: fs)) = render_steps (s :: r) ++ render_funs (g :: fs)) by reflexivity.
    destruct (exec_steps_tail cfg parse_float regex_ok (chain_fun_path (s :: r) (g :: fs)) (s :: r) (render_funs (g :: fs)) 1 [INode (Node KRoot (root_basic cfg) ONone)]
                (funs_tokens (1 + List.length (render_steps (s :: r))) (g :: fs) ++ [TAct 2; TAct 0]) [] 0 Hs Hsk) as (c1 & b1 & E).
    rewrite E. clear E.
    assert (Hsk2 : skipn (1 + List.length (render_steps (s :: r))) (chain_fun_path (s :: r) (g :: fs)) = fun_text g ++ render_funs fs).
    { rewrite skipn_add. cbn [skipn]. unfold chain_fun_path, chain_path. cbn [app skipn]. rewrite skipn_app, skipn_all, Nat.sub_diag. reflexivity. }
    cbn [funs_tokens]. rewrite <- app_assoc.
    destruct (exec_agg (chain_fun_path (s :: r) (g :: fs)) _ g (render_funs fs) ([INode (Node KRoot (root_basic cfg) ONone)] ++ map (fun x => INode (rpre_node cfg x)) (s :: r))
                (funs_tokens (1 + List.length (render_steps (s :: r)) + List.length (fun_text g)) fs ++ [TAct 2; TAct 0]) c1 b1 Hg Hsk2) as (c2 & b2 & E).
    rewrite E. clear E.
    destruct (exec_funs cfg parse_float regex_ok (chain_fun_path (s :: r) (g :: fs)) fs _
                (([INode (Node KRoot (root_basic cfg) ONone)] ++ map (fun x => INode (rpre_node cfg x)) (s :: r)) ++ [INode (anode g)])
                [TAct 2; TAct 0] c2 b2 Hk (skipn_next _ _ _ _ Hsk2)) as (cps' & b' & E).
    rewrite E. clear E. cbn [app Actions.execute].
    change (exec_action 2 cps' b' ?st) with (abind (set_node_chain st) update_root_vg).
    unfold set_node_chain, mk. cbn [params map app].
    change (INode (rpre_node cfg s) :: (map (fun x : rstep => INode (rpre_node cfg x)) r ++ [INode (anode g)]) ++ map (fun f : list N => INode (fnode cfg f)) fs)
      with ((map (fun x : rstep => INode (rpre_node cfg x)) (s :: r) ++ [INode (anode g)]) ++ map (fun f : list N => INode (fnode cfg f)) fs).
    rewrite !fold_left_app.
    pose proof (chain_fold cfg (root_basic cfg) (s :: r) []) as F. cbn [app] in F. change (link (pres cfg [])) with ONone in F.
    rewrite F. clear F. cbn [fold_left].
    change (chain_step (AOk (Node KRoot (root_basic cfg) (link (pres cfg (s :: r))))) (INode (anode g)))
      with (AOk (Node (KAgg (text_of g) (clear_acc (update_vg (Node KRoot (root_basic cfg) (link (pres cfg (s :: r))))))) (agg_basic g) (link []))).
    set (P0 := clear_acc (update_vg (Node KRoot (root_basic cfg) (link (pres cfg (s :: r)))))).
    rewrite (chain_fold_funs_nm (KAgg (text_of g) P0) (agg_basic g) fs ltac:(intros; discriminate) [] ltac:(constructor)). cbn [app]. subst P0.
    cbn [abind with_params params saved proot]. unfold update_root_vg. cbn [params with_params saved proot abind].
    unfold with_params. cbn [params saved proot].
    assert (Eu : forall P, update_vg (Node (KAgg (text_of g) P) (agg_basic g) (link (fpres cfg fs))) = Node (KAgg (text_of g) P) (agg_basic g) (link (fpres cfg fs))).
    { intros P. unfold update_vg. cbn [chain_vg]. rewrite link_vg, any_vg_fpres. reflexivity. }
    rewrite Eu.
    change (exec_action 0 cps' b' ?st) with
      (abind (pop_node st) (fun '(rt, st1) => AOk {| params := params st1; saved := saved st1; proot := Some (set_ctext_deep (delete_root rt) "") |})).
    unfold pop_node, pop. cbn [params rev app abind with_params saved proot delete_root].
    rewrite (set_ctext_agg _ _ _ (fpres cfg fs) (fpres_plain cfg fs)).
    unfold chain_agg_node, param_of. fold (agg_ctext g fs). pose proof (pres_plain cfg (s :: r)) as Hp.
    destruct (pres cfg (s :: r)) as [|x l] eqn:Ep.
    { exfalso. unfold pres in Ep. cbn [flat_map] in Ep. destruct s as [s0|s0]; discriminate Ep. }
    inversion Hp as [|? ? Hx Hl]; subst.
    assert (Ev : delete_root (clear_acc (update_vg (Node KRoot (root_basic cfg) (link (x :: l))))) =
                 Node (fst x) (set_vgroup (any_vg (x :: l)) (set_accessor false (snd x))) (link (cl l))).
    { unfold update_vg. cbn [chain_vg]. rewrite link_vg. cbn [root_basic mk_basic vgroup orb].
      destruct (any_vg (x :: l)) eqn:Ea.
      - unfold set_node_vg. rewrite (clear_link KRoot _ (x :: l) ltac:(intros; discriminate) Hp). reflexivity.
      - rewrite (clear_link KRoot _ (x :: l) ltac:(intros; discriminate) Hp). cbn [cl map link delete_root vgroup set_accessor mk_basic fst snd].
        cbn [any_vg existsb] in Ea. apply orb_false_iff in Ea. destruct Ea as [Ea _].
        destruct (snd x) as [t0 c0 v0 a0]. cbn [vgroup] in Ea. subst v0. reflexivity. }
    rewrite Ev. rewrite (set_ctext_link_p _ _ _ (cl l) Hx (cl_plain l Hl)). reflexivity.
  Qed.
End AggExec.
