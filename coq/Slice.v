(* Slice.v — model of syntax_subscript_{index,slice_positive_step,slice_negative_step,wildcard}.go
   and the independent Python-slice specification (property C11).  Model only. *)
From Coq Require Export ZArith List Bool.
Export ListNotations.
Open Scope Z_scope.

(* ---------- Go int (64 bit) ---------- *)
Definition two63 : Z := 9223372036854775808.
Definition two62 : Z := 4611686018427387904.
Definition two64 : Z := 18446744073709551616.
Definition wrap (x : Z) : Z := ((x + two63) mod two64) - two63.      (* Go int64 arithmetic *)
Definition in64 (x : Z) : Prop := - two63 <= x < two63.
Definition in64b (x : Z) : bool := (- two63 <=? x) && (x <? two63).

(* *syntaxIndexSubscript: number and isOmitted *)
Record idx := { number : Z; omitted : bool }.

Inductive subscript :=
| SubIndex (n : Z)
| SubSlicePos (st en sp : idx)
| SubSliceNeg (st en sp : idx)
| SubWild.

Inductive ires := IOk (l : list Z) | IPanic.

(* ---------- positive step ---------- *)
Definition norm_pos (value len : Z) : Z :=
  let value := if value <? 0 then (let v := wrap (value + len) in if v <? 0 then 0 else v) else value in
  if value >? len then len else value.

Definition loop_start_pos (s : idx) (len : Z) := norm_pos (if omitted s then 0 else number s) len.
Definition loop_end_pos (e : idx) (len : Z) := norm_pos (if omitted e then len else number e) len.

(* for i := start; i < end; i += step { result[index] = i; index++ }  with result := make([]int, len).
   Out of fuel is reported as a panic so that the theorem has to exclude it. *)
Fixpoint loop_pos (fuel : nat) (i e step len : Z) (index : Z) (acc : list Z) : ires :=
  match fuel with
  | O => IPanic
  | S f => if i <? e then
             if index <? len then loop_pos f (wrap (i + step)) e step len (index + 1) (acc ++ [i])
             else IPanic                          (* index out of range on result[index] *)
           else IOk acc
  end.

Definition get_indexes_pos (st en sp : idx) (len : Z) : ires :=
  let ls := loop_start_pos st len in
  let le := loop_end_pos en len in
  let stepn := number sp in
  if stepn >? 0 then
    let step := if stepn >? len then len else stepn in     (* the clamp of the D3 repair *)
    loop_pos (Z.to_nat len + 1) ls le step len 0 []
  else IOk [].

(* ---------- negative step ---------- *)
Definition norm_neg (value len : Z) : Z :=
  let value := if value <? 0 then (let v := wrap (value + len) in if v <? -1 then -1 else v) else value in
  if value >? len - 1 then len - 1 else value.

Definition loop_start_neg (s : idx) (len : Z) := norm_neg (if omitted s then len - 1 else number s) len.
Definition loop_end_neg (e : idx) (len : Z) := norm_neg (if omitted e then wrap (wrap (- len) - 1) else number e) len.

Fixpoint loop_neg (fuel : nat) (i e step len : Z) (index : Z) (acc : list Z) : ires :=
  match fuel with
  | O => IPanic
  | S f => if i >? e then
             if index <? len then loop_neg f (wrap (i + step)) e step len (index + 1) (acc ++ [i])
             else IPanic
           else IOk acc
  end.

Definition get_indexes_neg (st en sp : idx) (len : Z) : ires :=
  let ls := loop_start_neg st len in
  let le := loop_end_neg en len in
  let stepn := number sp in
  if stepn <? 0 then
    let step := if stepn <? - len then - len else stepn in
    loop_neg (Z.to_nat len + 1) ls le step len 0 []
  else IOk [].

(* ---------- index and wildcard ---------- *)
Definition get_indexes_index (n len : Z) : ires :=
  let index := if n <? 0 then wrap (n + len) else n in
  if (index <? 0) || (index >=? len) then IOk [] else IOk [index].

Fixpoint iota (n : nat) (from : Z) : list Z :=
  match n with O => [] | S k => from :: iota k (from + 1) end.

Definition get_indexes (s : subscript) (len : Z) : ires :=
  match s with
  | SubIndex n => get_indexes_index n len
  | SubSlicePos st en sp => get_indexes_pos st en sp len
  | SubSliceNeg st en sp => get_indexes_neg st en sp len
  | SubWild => IOk (iota (Z.to_nat len) 0)
  end.

(* the grammar action of rule `index` (jsonpath.peg): default the omitted step to 1,
   then choose the implementation by the sign of the step *)
Definition mk_slice (st en sp : idx) : subscript :=
  let sp' := if omitted sp then {| number := 1; omitted := true |} else sp in
  if number sp' >=? 0 then SubSlicePos st en sp' else SubSliceNeg st en sp'.

(* syntaxSubscript.isValueGroup *)
Definition sub_value_group (s : subscript) : bool :=
  match s with SubIndex _ => false | _ => true end.

(* ---------- independent specification: Python's slice.indices + range ---------- *)
Fixpoint range_up (n : nat) (s step : Z) : list Z :=
  match n with O => [] | S k => s :: range_up k (s + step) step end.

Definition py_bound_pos (v : option Z) (dflt len : Z) : Z :=
  match v with
  | None => dflt
  | Some v => if v <? 0 then Z.max (v + len) 0 else Z.min v len
  end.

Definition py_bound_neg (v : option Z) (dflt len : Z) : Z :=
  match v with
  | None => dflt
  | Some v => if v <? 0 then Z.max (v + len) (-1) else Z.min v (len - 1)
  end.

(* range(s, e, step) *)
Definition py_range (s e step : Z) : list Z :=
  if step >? 0 then
    if e <=? s then [] else range_up (Z.to_nat ((e - s + step - 1) / step)) s step
  else if step <? 0 then
    if s <=? e then [] else range_up (Z.to_nat ((s - e + (- step) - 1) / (- step))) s step
  else [].

(* what a[st:en:sp] selects from a list of length len (JSONPath: step 0 selects nothing) *)
Definition py_slice (st en sp : option Z) (len : Z) : list Z :=
  let step := match sp with None => 1 | Some s => s end in
  if step >? 0 then py_range (py_bound_pos st 0 len) (py_bound_pos en len len) step
  else if step <? 0 then py_range (py_bound_neg st (len - 1) len) (py_bound_neg en (-1) len) step
  else [].

Definition py_index (n len : Z) : list Z :=
  if (0 <=? n) && (n <? len) then [n]
  else if (- len <=? n) && (n <? 0) then [n + len]
  else [].

Definition opt (i : idx) : option Z := if omitted i then None else Some (number i).
