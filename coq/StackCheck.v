(* StackCheck.v — a verified stack-effect checker for the grammar (C02): `check` runs a PEG expression
   on a stack of item types, using the abstract effect of each action (StackActs.v) and one summary
   per rule; `check_sound` proves with the logic of StackLogic.v that an expression that checks never
   drives the real actions (Actions.exec_action) into a crash site. *)
From JP Require Import Peg Text Tree Actions Eval WF PegFacts ParseFacts ErrPos StackLogic TreeWf TreeText StackActs.
From Coq Require Import Lia.
Open Scope list_scope.
Open Scope nat_scope.

(* ---------- abstract states ---------- *)
Record astate := mkA { a_stk : list ity; a_cap : bool }.

Inductive cond := CAny | CInv | CEmpty | CInit.
Definition holds (c : cond) (ps : list item) (sv : list (list item)) : Prop :=
  match c with
  | CAny => True
  | CInv => ps = [] -> sv = []
  | CEmpty => ps = []
  | CInit => ps = [] /\ sv = []
  end.
Definition nonempty {A} (l : list A) : bool := match l with [] => false | _ => true end.
Definition call_ok (c0 : cond) (stk : list ity) (c' : cond) : bool :=
  match c' with
  | CAny => true
  | CInv => nonempty stk || match c0 with CInv | CInit => true | _ => false end
  | CEmpty => negb (nonempty stk) && match c0 with CEmpty | CInit => true | _ => false end
  | CInit => negb (nonempty stk) && match c0 with CInit => true | _ => false end
  end.
Lemma call_ok_holds c0 stk c' ps sv vals :
  holds c0 ps sv -> call_ok c0 stk c' = true -> typed vals stk -> holds c' (ps ++ rev vals) sv.
Proof.
  intros H Hc Ht. destruct c'; cbn [call_ok holds] in *.
  - exact I.
  - intros He. apply app_eq_nil in He. destruct He as [He1 He2].
    destruct stk as [|t stk]; cbn [nonempty orb] in Hc.
    + destruct c0; try discriminate; cbn [holds] in H; [apply H; exact He1|apply H].
    + inversion Ht; subst. cbn [rev] in He2. apply app_eq_nil in He2. destruct He2 as [_ He2]. discriminate.
  - apply andb_true_iff in Hc. destruct Hc as [Hn Hc]. destruct stk; [|discriminate]. inversion Ht; subst.
    cbn [rev]. rewrite app_nil_r. destruct c0; try discriminate; cbn [holds] in H; [exact H|apply H].
  - apply andb_true_iff in Hc. destruct Hc as [Hn Hc]. destruct stk; [|discriminate]. inversion Ht; subst.
    cbn [rev]. rewrite app_nil_r. destruct c0; try discriminate. exact H.
Qed.

Inductive summary :=
| SPush (c : cond) (tys : list ity)     (* under c, pushes items of these types (in push order) and nothing else changes *)
| SChain                                (* [node] -> [node'], rootedness preserved (continuedJsonpath) *)
| SOperand                              (* pushes a filter operand and its literal flag, in agreement (jsonpathFilter) *)
| SBot                                  (* replay never finishes normally (always a documented error) *)
| SNone.                                (* no summary: may not be referenced *)

Fixpoint leq_stk (s1 s2 : list ity) : bool :=
  match s1, s2 with
  | [], [] => true
  | a :: r1, b :: r2 => subty a b && leq_stk r1 r2
  | _, _ => false
  end.
Definition leq (a1 a2 : astate) : bool := leq_stk (a_stk a1) (a_stk a2) && implb (a_cap a2) (a_cap a1).
Definition leqr (r1 r2 : option astate) : bool :=
  match r1, r2 with
  | None, _ => true
  | Some a1, Some a2 => leq a1 a2
  | Some _, None => false
  end.
Fixpoint lub_stk (s1 s2 : list ity) : option (list ity) :=
  match s1, s2 with
  | [], [] => Some []
  | a :: r1, b :: r2 => match lub a b, lub_stk r1 r2 with Some c, Some r => Some (c :: r) | _, _ => None end
  | _, _ => None
  end.
Definition join (r1 r2 : option astate) : option (option astate) :=
  match r1, r2 with
  | None, r | r, None => Some r
  | Some a1, Some a2 =>
      match lub_stk (a_stk a1) (a_stk a2) with
      | Some s => Some (Some (mkA s (a_cap a1 && a_cap a2)))
      | None => None
      end
  end.

Lemma typed_leq : forall s1 s2 vals, leq_stk s1 s2 = true -> typed vals s1 -> typed vals s2.
Proof.
  induction s1 as [|a s1 IH]; intros [|b s2] vals H Ht; cbn [leq_stk] in H; try discriminate; [exact Ht|].
  apply andb_true_iff in H. destruct H as [H1 H2]. inversion Ht; subst. constructor.
  - eapply has_ty_sub; eassumption.
  - apply IH; assumption.
Qed.
Lemma lub_stk_ub : forall s1 s2 s, lub_stk s1 s2 = Some s -> leq_stk s1 s = true /\ leq_stk s2 s = true.
Proof.
  induction s1 as [|a s1 IH]; intros [|b s2] s H; cbn [lub_stk] in H; try discriminate.
  - inversion H; subst. split; reflexivity.
  - destruct (lub a b) as [c|] eqn:El; [|discriminate]. destruct (lub_stk s1 s2) as [r|] eqn:Er; [|discriminate].
    inversion H; subst. destruct (lub_ub _ _ _ El) as [L1 L2]. destruct (IH _ _ Er) as [R1 R2].
    cbn [leq_stk]. rewrite L1, L2, R1, R2. split; reflexivity.
Qed.
Lemma leq_stk_refl s : leq_stk s s = true.
Proof. induction s as [|a s IH]; cbn [leq_stk]; [reflexivity|]. rewrite IH. destruct a; reflexivity. Qed.
Lemma join_ub r1 r2 r : join r1 r2 = Some r -> leqr r1 r = true /\ leqr r2 r = true.
Proof.
  destruct r1 as [a1|], r2 as [a2|]; cbn [join]; intros H.
  - destruct (lub_stk (a_stk a1) (a_stk a2)) as [s|] eqn:E; [|discriminate]. inversion H; subst.
    destruct (lub_stk_ub _ _ _ E) as [L1 L2]. unfold leqr, leq. cbn [a_stk a_cap]. rewrite L1, L2.
    destruct (a_cap a1), (a_cap a2); split; reflexivity.
  - inversion H; subst. cbn [leqr]. unfold leq. rewrite leq_stk_refl. destruct (a_cap a1); split; reflexivity.
  - inversion H; subst. cbn [leqr]. unfold leq. rewrite leq_stk_refl. destruct (a_cap a2); split; reflexivity.
  - inversion H; subst. split; reflexivity.
Qed.

(* a filter operand with its literal flag: `$` paths carry true, `@` paths false *)
Definition pq_ok (p : pquery) (b : bool) : Prop :=
  pqwf p = true /\ match p with PqRoot _ => b = true | PqCur _ => b = false | PqLit _ => False end.

Section Check.
  Variable cfg : config.
  Variable parse_float : string -> option num.
  Variable regex_ok : string -> bool.
  Notation exec_action := (exec_action cfg parse_float regex_ok).
  Variable g : grammar.
  Variable summary_of : nat -> summary.
  Variable claimed : nat -> bool.
  Hypothesis claimed_ok : forall r body, claimed r = true -> nth_error g r = Some body -> consumesb claimed body = true.
  Notation tr := (tr cfg parse_float regex_ok g).

  Fixpoint pops (req stk : list ity) : option (list ity) :=
    match req with
    | [] => Some stk
    | t :: req' => match stk with
                   | x :: stk' => if subty x t then pops req' stk' else None
                   | [] => None
                   end
    end.
  Lemma pops_sound : forall req stk r vals, pops req stk = Some r -> typed vals stk ->
    exists vtop vrest, vals = vtop ++ vrest /\ typed vtop req /\ typed vrest r.
  Proof.
    induction req as [|t req IH]; intros stk r vals H Ht; cbn [pops] in H.
    - inversion H; subst. exists [], vals. repeat split; [constructor|exact Ht].
    - destruct stk as [|x stk]; [discriminate|]. destruct (subty x t) eqn:Es; [|discriminate].
      inversion Ht as [|v ? vs ? Hv Hvs]; subst. destruct (IH _ _ _ H Hvs) as (vtop & vrest & -> & T1 & T2).
      exists (v :: vtop), vrest. repeat split; [constructor; [eapply has_ty_sub; eassumption|exact T1]|exact T2].
  Qed.

  Definition transfer (n : nat) (a : astate) : option (option astate) :=
    match n with
    | 1 | 22 => Some None
    | _ => match sig n with
           | Some (req, out) =>
               if needs_cap n && negb (a_cap a) then None
               else match pops req (a_stk a) with
                    | Some r => Some (Some (mkA (out ++ r) (a_cap a)))
                    | None => None
                    end
           | None => None
           end
    end.

  Definition init_a : astate := mkA [] false.

  Fixpoint check (c0 : cond) (e : pexp) (a : astate) : option (option astate) :=
    match e with
    | PAny | PLit _ | PCls _ _ | PEps | PNot _ | PAnd _ => Some (Some a)
    | PSeq x y => match check c0 x a with
                  | Some (Some a1) => check c0 y a1
                  | r => r
                  end
    | PAlt x y => match check c0 x a, check c0 y a with
                  | Some r1, Some r2 => join r1 r2
                  | _, _ => None
                  end
    | PStar x | PPlus x =>
        let a' := mkA (a_stk a) false in
        match check c0 x a' with
        | Some r =>
            if leqr r (Some a') then Some (Some a')
            else (* one widening step: the invariant is the join of the entry state and the state after one round *)
              match join r (Some a') with
              | Some (Some a2) =>
                  match check c0 x a2 with
                  | Some r2 => if leqr r2 (Some a2) then Some (Some a2) else None
                  | None => None
                  end
              | _ => None
              end
        | None => None
        end
    | POpt x => match check c0 x a with
                | Some r => join r (Some a)
                | None => None
                end
    | PCap x => match check c0 x a with
                | Some (Some a1) => Some (Some (mkA (a_stk a1) (consumesb claimed x)))
                | r => r
                end
    | PAct n => transfer n a
    | PRef r =>
        match summary_of r with
        | SPush c tys => if call_ok c0 (a_stk a) c then Some (Some (mkA (rev tys ++ a_stk a) false)) else None
        | SBot => Some None
        | SChain => match c0, a_stk a with
                    | CEmpty, [t] | CInit, [t] =>
                        match t with
                        | TNodeT => Some (Some (mkA [TNodeT] false))
                        | TRooted | TRootedH => Some (Some (mkA [TRootedH] false))
                        | _ => None
                        end
                    | _, _ => None
                    end
        | SOperand => if call_ok c0 (a_stk a) CInv then Some (Some (mkA (TBool :: TPQ :: a_stk a) false)) else None
        | SNone => None
        end
    end.

  (* concretisation: the items pushed above the base ps have the types of the abstract stack (top first) *)
  Definition Gam (ps : list item) (sv : list (list item)) (pr : option node) (a : astate) : asrt :=
    fun x => exists vals, typed vals (a_stk a) /\ snd x = mk (ps ++ rev vals) sv pr /\ (a_cap a = true -> fst (fst x) <> []).
  Definition Gres ps sv pr (r : option astate) : asrt :=
    match r with Some a => Gam ps sv pr a | None => fun _ => False end.
  Definition at_ (st0 : pstate) : asrt := fun x => snd x = st0.

  Lemma Gam_leq ps sv pr a1 a2 x : leq a1 a2 = true -> Gam ps sv pr a1 x -> Gam ps sv pr a2 x.
  Proof.
    unfold leq. intros H (vals & Ht & Hs & Hc). apply andb_true_iff in H. destruct H as [H1 H2].
    exists vals. repeat split; [eapply typed_leq; eassumption|exact Hs|].
    intros Hc2. apply Hc. destruct (a_cap a2), (a_cap a1); try reflexivity; discriminate.
  Qed.
  Lemma Gres_leq ps sv pr r1 r2 x : leqr r1 r2 = true -> Gres ps sv pr r1 x -> Gres ps sv pr r2 x.
  Proof.
    destruct r1 as [a1|], r2 as [a2|]; cbn [leqr Gres]; intros H Hg; try contradiction; try discriminate.
    eapply Gam_leq; eassumption.
  Qed.

  Definition Sem (f : nat) (r : nat) (s : summary) : Prop :=
    match s with
    | SPush c tys => forall ps sv pr, holds c ps sv ->
        tr f (PRef r) (at_ (mk ps sv pr)) (Gam ps sv pr (mkA (rev tys) false))
    | SChain => forall x sv pr, nwf x = true -> tlp true x = true ->
        tr f (PRef r) (at_ (mk [INode x] sv pr))
           (fun y => exists x', snd y = mk [INode x'] sv pr /\ nwf x' = true /\ tlp true x' = true /\ hvg x' = true /\
                                (rootedb x = true -> rootedb x' = true))
    | SOperand => forall ps sv pr, holds CInv ps sv ->
        tr f (PRef r) (at_ (mk ps sv pr))
           (fun y => exists p b, snd y = mk (ps ++ [IPQ p; IBool b]) sv pr /\ pq_ok p b)
    | SBot => forall st0, tr f (PRef r) (at_ st0) (fun _ => False)
    | SNone => True
    end.
  Definition Rules (f : nat) : Prop := forall r, Sem f r (summary_of r).

  Lemma transfer_sound f n a res ps sv pr :
    transfer n a = Some res -> tr f (PAct n) (Gam ps sv pr a) (Gres ps sv pr res).
  Proof.
    intros Ht. apply tr_act. intros cps b st (vals & Hty & Hst & Hcap). cbn [fst snd] in *. subst st.
    assert (Hb : forall k, (k = 1 \/ k = 22) -> res = None -> n = k ->
                 wpa (exec_action n cps b (mk (ps ++ rev vals) sv pr)) (fun st' => Gres ps sv pr res (cps, b, st'))).
    { intros k [->| ->] _ ->; cbn [Actions.exec_action wpa]; exact I. }
    unfold transfer in Ht.
    destruct (Nat.eq_dec n 1) as [->|N1]; [inversion Ht; subst; exact I|].
    destruct (Nat.eq_dec n 22) as [->|N22]; [inversion Ht; subst; exact I|].
    assert (Ht' : match sig n with
                  | Some (req, out) =>
                      if needs_cap n && negb (a_cap a) then None
                      else match pops req (a_stk a) with
                           | Some r => Some (Some (mkA (out ++ r) (a_cap a)))
                           | None => None
                           end
                  | None => None
                  end = Some res).
    { do 23 (destruct n as [|n]; [try exact Ht; try (contradiction N1; reflexivity); try (contradiction N22; reflexivity)|]). exact Ht. }
    clear Ht Hb. destruct (sig n) as [[req out]|] eqn:Es; [|discriminate].
    destruct (needs_cap n && negb (a_cap a)) eqn:E27; [discriminate|].
    destruct (pops req (a_stk a)) as [r|] eqn:Ep; [|discriminate]. inversion Ht'; subst res. clear Ht'.
    destruct (pops_sound _ _ _ _ Ep Hty) as (vtop & vrest & -> & T1 & T2).
    rewrite rev_app_distr, app_assoc.
    assert (Hc27 : needs_cap n = true -> cps <> []).
    { intros Hn. rewrite Hn in E27. cbn [andb] in E27. apply Hcap. destruct (a_cap a); [reflexivity|discriminate]. }
    pose proof (act_sound cfg parse_float regex_ok n req out vtop cps b (ps ++ rev vrest) sv pr Es T1 Hc27) as Ha.
    destruct (exec_action n cps b (mk ((ps ++ rev vrest) ++ rev vtop) sv pr)) as [st'|err|s]; cbn [wpa] in *; [|exact I|contradiction].
    destruct Ha as (vout & To & ->). exists (vout ++ vrest). cbn [a_stk a_cap Gres fst snd].
    repeat split; [apply typed_app; assumption|rewrite rev_app_distr, app_assoc; reflexivity|exact Hcap].
  Qed.
  Ltac idpre := let z := fresh in let H := fresh in intros z H; exact H.

  Theorem check_sound f : Rules f -> forall e c0 a res, check c0 e a = Some res ->
    forall ps sv pr, holds c0 ps sv -> tr f e (Gam ps sv pr a) (Gres ps sv pr res).
  Proof.
    intros HR. induction e as [ |s|neg rs|x IHx y IHy|x IHx y IHy|x IHx|x IHx|x IHx|x IHx|x IHx|r|x IHx|n| ];
      intros c0 a res Hc ps sv pr Hh; cbn [check] in Hc.
    - inversion Hc; subst. apply tr_notok; [reflexivity|]. intros z Hz; exact Hz.
    - inversion Hc; subst. apply tr_notok; [reflexivity|]. intros z Hz; exact Hz.
    - inversion Hc; subst. apply tr_notok; [reflexivity|]. intros z Hz; exact Hz.
    - (* sequence *)
      destruct (check c0 x a) as [[a1|]|] eqn:Ex; try discriminate.
      + eapply tr_seq; [eapply IHx; eassumption|eapply IHy; eassumption].
      + inversion Hc; subst. eapply tr_seq; [eapply IHx; eassumption|]. cbn [Gres]. apply tr_false.
    - (* ordered choice *)
      destruct (check c0 x a) as [r1|] eqn:Ex; [|discriminate]. destruct (check c0 y a) as [r2|] eqn:Ey; [|discriminate].
      destruct (join_ub _ _ _ Hc) as [L1 L2].
      apply tr_alt.
      + eapply tr_conseq; [idpre| |eapply IHx; eassumption]. intros z. apply Gres_leq. exact L1.
      + eapply tr_conseq; [idpre| |eapply IHy; eassumption]. intros z. apply Gres_leq. exact L2.
    - (* star *)
      assert (Hpre : forall z, Gam ps sv pr a z -> Gam ps sv pr (mkA (a_stk a) false) z).
      { intros z Hz. eapply Gam_leq; [|exact Hz]. unfold leq. cbn [a_stk a_cap]. rewrite leq_stk_refl. reflexivity. }
      destruct (check c0 x (mkA (a_stk a) false)) as [r|] eqn:Ex; [|discriminate].
      destruct (leqr r (Some (mkA (a_stk a) false))) eqn:El.
      + inversion Hc; subst res.
        eapply tr_conseq; [exact Hpre| |apply tr_star with (J := Gam ps sv pr (mkA (a_stk a) false))].
        * intros z Hz. exact Hz.
        * eapply tr_conseq; [idpre| |eapply IHx; eassumption]. intros z. apply (Gres_leq _ _ _ r (Some (mkA (a_stk a) false))). exact El.
      + destruct (join r (Some (mkA (a_stk a) false))) as [[a2|]|] eqn:Ej; try discriminate.
        destruct (check c0 x a2) as [r2|] eqn:Ex2; [|discriminate].
        destruct (leqr r2 (Some a2)) eqn:El2; [|discriminate]. inversion Hc; subst res.
        destruct (join_ub _ _ _ Ej) as [_ L2]. cbn [leqr] in L2.
        eapply tr_conseq; [| |apply tr_star with (J := Gam ps sv pr a2)].
        * intros z Hz. eapply Gam_leq; [exact L2|]. apply Hpre. exact Hz.
        * intros z Hz. exact Hz.
        * eapply tr_conseq; [idpre| |eapply IHx; eassumption]. intros z. apply (Gres_leq _ _ _ r2 (Some a2)). exact El2.
    - (* plus *)
      assert (Hpre : forall z, Gam ps sv pr a z -> Gam ps sv pr (mkA (a_stk a) false) z).
      { intros z Hz. eapply Gam_leq; [|exact Hz]. unfold leq. cbn [a_stk a_cap]. rewrite leq_stk_refl. reflexivity. }
      destruct (check c0 x (mkA (a_stk a) false)) as [r|] eqn:Ex; [|discriminate].
      destruct (leqr r (Some (mkA (a_stk a) false))) eqn:El.
      + inversion Hc; subst res.
        eapply tr_conseq; [exact Hpre| |apply tr_plus with (J := Gam ps sv pr (mkA (a_stk a) false))].
        * intros z Hz. exact Hz.
        * eapply tr_conseq; [idpre| |eapply IHx; eassumption]. intros z. apply (Gres_leq _ _ _ r (Some (mkA (a_stk a) false))). exact El.
      + destruct (join r (Some (mkA (a_stk a) false))) as [[a2|]|] eqn:Ej; try discriminate.
        destruct (check c0 x a2) as [r2|] eqn:Ex2; [|discriminate].
        destruct (leqr r2 (Some a2)) eqn:El2; [|discriminate]. inversion Hc; subst res.
        destruct (join_ub _ _ _ Ej) as [_ L2]. cbn [leqr] in L2.
        eapply tr_conseq; [| |apply tr_plus with (J := Gam ps sv pr a2)].
        * intros z Hz. eapply Gam_leq; [exact L2|]. apply Hpre. exact Hz.
        * intros z Hz. exact Hz.
        * eapply tr_conseq; [idpre| |eapply IHx; eassumption]. intros z. apply (Gres_leq _ _ _ r2 (Some a2)). exact El2.
    - (* option *)
      destruct (check c0 x a) as [r|] eqn:Ex; [|discriminate]. destruct (join_ub _ _ _ Hc) as [L1 L2].
      apply tr_opt.
      + eapply tr_conseq; [idpre| |eapply IHx; eassumption]. intros z. apply Gres_leq. exact L1.
      + intros z Hz. apply (Gres_leq _ _ _ (Some a) res _ L2). exact Hz.
    - inversion Hc; subst. apply tr_notok; [reflexivity|]. intros z Hz; exact Hz.
    - inversion Hc; subst. apply tr_notok; [reflexivity|]. intros z Hz; exact Hz.
    - (* rule reference: use the summary *)
      pose proof (HR r) as Hsem. destruct (summary_of r) as [c tys| | | |] eqn:Es; cbn [Sem] in Hsem.
      + destruct (call_ok c0 (a_stk a) c) eqn:Eo; [|discriminate]. inversion Hc; subst res.
        apply tr_pre_ex. intros x0 (vals & Hty & Hst & _).
        specialize (Hsem (ps ++ rev vals) sv pr (call_ok_holds _ _ _ _ _ _ Hh Eo Hty)).
        eapply tr_conseq; [| |exact Hsem].
        * intros z ->. exact Hst.
        * intros z (vals1 & Ht1 & Hs1 & _). exists (vals1 ++ vals). cbn [a_stk a_cap] in *. repeat split.
          -- apply typed_app; assumption.
          -- rewrite Hs1, rev_app_distr, app_assoc. reflexivity.
          -- discriminate.
      + (* the node chain *)
        assert (Hps : ps = []) by (destruct c0; try discriminate; cbn [holds] in Hh; [exact Hh|apply Hh]).
        assert (Hshape : exists t t', a_stk a = [t] /\ res = Some (mkA [t'] false) /\
                          ((t = TNodeT /\ t' = TNodeT) \/ ((t = TRooted \/ t = TRootedH) /\ t' = TRootedH))).
        { destruct c0; try discriminate; destruct (a_stk a) as [|t [|t2 l]]; try discriminate;
            destruct t; try discriminate; inversion Hc; subst res; do 2 eexists; repeat split; auto. }
        destruct Hshape as (t & t' & Ea & -> & Htt). subst ps.
        apply tr_pre_ex. intros x0 (vals & Hty & Hst & _). rewrite Ea in Hty.
        inversion Hty as [|v ? vs ? Hv Hvs]; subst. inversion Hvs; subst.
        assert (Hn : exists nd, v = INode nd /\ nwf nd = true /\ tlp true nd = true /\ (t' = TRootedH -> rootedb nd = true)).
        { destruct Htt as [[-> ->]|[[-> | ->] ->]]; destruct v; try discriminate Hv; cbn [has_ty] in Hv;
            eexists; (split; [reflexivity|]); split_hyps; repeat split; try assumption; try discriminate; try (intros _; assumption). }
        destruct Hn as (nd & -> & Hnwf & Htl & Hroot0). cbn [rev app] in Hst.
        eapply tr_conseq; [| |exact (Hsem nd sv pr Hnwf Htl)].
        * intros z ->. exact Hst.
        * intros z (x' & Hs1 & Hw & Ht' & Hh' & Hroot). exists [INode x']. cbn [a_stk a_cap Gres Gam rev app]. repeat split.
          -- constructor; [|constructor].
             destruct Htt as [[_ ->]|[_ ->]]; cbn [has_ty]; [rewrite Hw, Ht'; reflexivity|].
             rewrite Hw, Ht', Hh', (Hroot (Hroot0 eq_refl)). reflexivity.
          -- exact Hs1.
          -- discriminate.
      + (* a filter operand *)
        destruct (call_ok c0 (a_stk a) CInv) eqn:Eo; [|discriminate]. inversion Hc; subst res.
        apply tr_pre_ex. intros x0 (vals & Hty & Hst & _).
        specialize (Hsem (ps ++ rev vals) sv pr (call_ok_holds _ _ _ _ _ _ Hh Eo Hty)).
        eapply tr_conseq; [| |exact Hsem].
        * intros z ->. exact Hst.
        * intros z (p & b & Hs1 & Hp & Hb). exists (IBool b :: IPQ p :: vals). cbn [a_stk a_cap] in *. repeat split.
          -- constructor; [reflexivity|]. constructor; [exact Hp|exact Hty].
          -- rewrite Hs1. cbn [rev]. rewrite <- !app_assoc. reflexivity.
          -- discriminate.
      + inversion Hc; subst res. apply tr_pre_ex. intros x0 _.
        eapply tr_conseq; [| |exact (Hsem (snd x0))]; [intros z ->; reflexivity|intros z []].
      + discriminate.
    - (* capture *)
      destruct (check c0 x a) as [[a1|]|] eqn:Ex; try discriminate.
      + inversion Hc; subst res. eapply tr_cap with (ne := consumesb claimed x) (Q' := Gam ps sv pr a1).
        * exact (IHx _ _ _ Ex _ _ _ Hh).
        * intros Hne f' rest pos r0 p t Hrun. eapply (consumes_sound g claimed claimed_ok); [exact Hne|exact Hrun].
        * intros cps0 b0 st' cps' b' (vals & Ht & Hs & _) Hne. exists vals. cbn [a_stk a_cap fst snd] in *.
          repeat split; assumption.
      + inversion Hc; subst res. cbn [Gres]. eapply tr_cap with (ne := false) (Q' := fun _ => False).
        * exact (IHx _ _ _ Ex _ _ _ Hh).
        * discriminate.
        * intros; contradiction.
    - apply transfer_sound. exact Hc.
    - inversion Hc; subst. apply tr_notok; [reflexivity|]. intros z Hz; exact Hz.
  Qed.
End Check.
