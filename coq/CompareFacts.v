(* CompareFacts.v — facts about the comparators of Eval.v and the comparison builders of
   Actions.v used by C09 / C10: dualities, type strictness, numeric comparison by value. *)
From JP Require Import Eval Actions Verdict.
From Coq Require Import Lia.

(* does the element survive the comparator (is the member still selected)? *)
Section CF.
  Variable regex_match : string -> string -> bool.
  Definition keeps (c : comparator) (right x : entry) : bool :=
    match fst (cmp_entry regex_match c right x) with Some true => true | _ => false end.
  Definition no_panic (c : comparator) (right x : entry) : Prop :=
    snd (cmp_entry regex_match c right x) = None.

  Lemma num_eqb_sym a b : num_eqb a b = num_eqb b a.
  Proof.
    destruct a, b; cbn [num_eqb]; try reflexivity.
    rewrite Z.min_comm. apply Z.eqb_sym.
  Qed.

  (* the state of an operand list after the numeric validator: markers and float64 only *)
  Definition numeric_entry (x : entry) : Prop := x = None \/ exists a, x = Some (VNum a).

  Lemma validate_numeric x : numeric_entry (match validate_entry VdNumeric x with Some y => y | None => x end).
  Proof.
    destruct x as [v|]; [|left; reflexivity].
    destruct v; cbn; try (left; reflexivity); right; eexists; reflexivity.
  Qed.

  (* a <= n selects exactly what a < n or a == n select; same for >= *)
  Lemma keeps_le b x : numeric_entry x ->
    keeps CLe (Some (VNum b)) x = keeps CLt (Some (VNum b)) x || keeps (CDirectEq VdNumeric) (Some (VNum b)) x.
  Proof. intros [->|[a ->]]; unfold keeps; cbn; [reflexivity|]. unfold num_leb. destruct (num_ltb a b), (num_eqb a b); reflexivity. Qed.

  Lemma keeps_ge b x : numeric_entry x ->
    keeps CGe (Some (VNum b)) x = keeps CGt (Some (VNum b)) x || keeps (CDirectEq VdNumeric) (Some (VNum b)) x.
  Proof.
    intros [->|[a ->]]; unfold keeps; cbn; [reflexivity|]. unfold num_leb. rewrite (num_eqb_sym b a).
    destruct (num_ltb b a), (num_eqb a b); reflexivity.
  Qed.

  (* the ordering comparators never reach their unchecked type assertions on validated operands *)
  Lemma ordering_no_panic c b x : (c = CLt \/ c = CLe \/ c = CGt \/ c = CGe) -> numeric_entry x ->
    no_panic c (Some (VNum b)) x.
  Proof. intros Hc [->|[a ->]]; destruct Hc as [->|[->|[->| ->]]]; reflexivity. Qed.

  (* type strictness of the validators: only operands of the literal's JSON type stay *)
  Definition vd_type (vd : validator) (v : value) : bool :=
    match vd, v with
    | VdNumeric, VNum _ | VdNumeric, VJNum _ _ | VdBool, VBool _ | VdString, VStr _ | VdNil, VNull => true
    | _, _ => false
    end.
  Lemma validate_entry_strict vd x :
    match (match validate_entry vd x with Some y => y | None => x end) with
    | Some v => exists w, x = Some w /\ vd_type vd w = true
    | None => True
    end.
  Proof.
    destruct x as [v|]; [|exact I].
    destruct vd, v; cbn; try exact I; eexists; split; reflexivity.
  Qed.

  (* json.Number operands are converted to their float64 value before any comparison:
     comparison is by numeric value whatever the decoding *)
  Lemma validate_jnum s f : validate_entry VdNumeric (Some (VJNum s f)) = Some (Some (VNum f)).
  Proof. reflexivity. Qed.
  Lemma validate_num f : validate_entry VdNumeric (Some (VNum f)) = None.
  Proof. reflexivity. Qed.
End CF.

(* ---------- parse-time operand reordering (jsonpath_parser.go, the pushCompare functions) ---------- *)
Lemma mirror_involutive c : mirror (mirror c) = c.
Proof. destruct c; reflexivity. Qed.

(* a OP b and b OP' a (OP' the mirrored operator) build the same query whenever the operands
   have different ranks (literal > $ > @) *)
Lemma push_compare_ord_mirror c l r st : rank l <> rank r ->
  push_compare_ord c l r st = push_compare_ord (mirror c) r l st.
Proof.
  intros H. unfold push_compare_ord, swap_required.
  destruct (Nat.ltb_spec (rank r) (rank l)), (Nat.ltb_spec (rank l) (rank r)); try lia.
  - reflexivity.
  - rewrite mirror_involutive. reflexivity.
Qed.

Lemma push_compare_eq_sym l r st : rank l <> rank r ->
  push_compare_eq l r st = push_compare_eq r l st.
Proof.
  intros H. unfold push_compare_eq, swap_required.
  destruct (Nat.ltb_spec (rank r) (rank l)), (Nat.ltb_spec (rank l) (rank r)); try lia; reflexivity.
Qed.

(* the reordering needs at most one swap and is not recursive: after it the right operand
   never ranks below the left one *)
Lemma push_compare_ord_ordered c l r st :
  exists l' r' c', push_compare_ord c l r st = push (IQuery (QCmp l' r' c')) st /\ rank l' <= rank r'.
Proof.
  unfold push_compare_ord, swap_required. destruct (Nat.ltb_spec (rank r) (rank l)).
  - exists r, l, (mirror c). split; [reflexivity|lia].
  - exists l, r, c. split; [reflexivity|lia].
Qed.
