(* ErrSpec.v — specification of the runtime error a failing retrieval reports (C15): a stateless,
   compositional function over the syntax tree.  A step applied to one cursor either succeeds
   (None) or reports one error; a multi-valued step looks at the outcome of every branch in
   traversal order — if any branch succeeds the step succeeds, otherwise the error is chosen among
   the branch errors by the ranking of addDeepestError (shortest remaining path text first, at equal
   length a type mismatch yields to the next candidate), and a step without any candidate reports
   "member does not exist" for itself.  Filters consult the per-member verdicts of Spec.holds. *)
From JP Require Import Eval WF Spec.
Open Scope string_scope.
Open Scope list_scope.

(* every node that can report an error carries a non-empty remaining-path text (the ranking uses
   its length, and length 0 doubles as "nothing recorded yet"); decidable, evaluated on every parsed tree *)
Fixpoint ctext_ok (n : node) : bool :=
  match n with
  | Node k b next =>
      negb (String.eqb (ctext b) "") &&
      (match k with
       | KMulti ids _ uq => ctext_ok_ids ids && match uq with OSome u => ctext_ok u | ONone => true end
       | KAgg _ param => ctext_ok param
       | _ => true
       end) &&
      match next with OSome m => ctext_ok m | ONone => true end
  end
with ctext_ok_ids (ids : nodes) : bool :=
  match ids with NNil => true | NCons i r => ctext_ok i && ctext_ok_ids r end.

Inductive bout := BOk | BErr (e : rerr) | BNop.
Definition of_opt (o : option rerr) : bout := match o with None => BOk | Some e => BErr e end.
Definition is_ok (o : bout) : bool := match o with BOk => true | _ => false end.
Definition errs_of (os : list bout) : list rerr :=
  flat_map (fun o => match o with BErr e => [e] | _ => [] end) os.

Definition sel_step (s : nat * option rerr) (e : rerr) : nat * option rerr := add_deepest e (fst s) (snd s).
Definition select (es : list rerr) : option rerr := snd (fold_left sel_step es (0%nat, None)).
Definition loop_err (self : basic) (os : list bout) : option rerr :=
  if existsb is_ok os then None
  else Some (match select (errs_of os) with Some e => e | None => EMember self end).

Section ErrSpec.
  Variable ffun : string -> value -> option value.
  Variable afun : string -> list value -> option value.
  Variable regex_match : string -> string -> bool.
  Notation sp := (sp ffun afun regex_match).
  Notation holds := (holds ffun afun regex_match).

  Fixpoint serr (n : node) (root : value) (cur : cursor) {struct n} : option rerr :=
    match n with
    | Node k b next =>
        let fwd := fun (cur' : cursor) => match next with OSome nx => serr nx root cur' | ONone => None end in
        let keyf := fun (m : list (string * value)) (key : string) =>
          match lookup m key with
          | None => Some (EMember b)
          | Some v => fwd (ext_loc (fst cur) (PKey key), v)
          end in
        let idxf := fun (iv : Z * value) => fwd (ext_loc (fst cur) (PIdx (fst iv)), snd iv) in
        match k with
        | KRoot => fwd (Some [], root)
        | KCurrent => fwd cur
        | KSingle key =>
            match snd cur with
            | VObj m => keyf m key
            | v => Some (EType b "object" (go_type v))
            end
        | KWild =>
            match snd cur with
            | VObj m => loop_err b (map (fun key => of_opt (keyf m key)) (sorted_keys m))
            | VArr xs => loop_err b (map (fun iv => of_opt (idxf iv)) (index_list xs 0))
            | v => Some (EType b "object/array" (go_type v))
            end
        | KMulti ids allWild uq =>
            match snd cur, allWild with
            | VArr _, true => match uq with OSome u => serr u root cur | ONone => None end
            | VObj m, _ => loop_err b (serr_ids ids m root cur)
            | v, _ => Some (EType b "object" (go_type v))
            end
        | KRec mapReq listReq =>
            if is_container (snd cur) then
              match next with
              | ONone => None
              | OSome nx =>
                  loop_err b (map (fun cu => match snd cu with
                                             | VObj _ => if mapReq then of_opt (serr nx root cu) else BNop
                                             | VArr _ => if listReq then of_opt (serr nx root cu) else BNop
                                             | _ => BNop
                                             end) (containers (fst cur) (snd cur)))
              end
            else Some (EType b "object/array" (go_type (snd cur)))
        | KUnion subs =>
            match snd cur with
            | VArr xs =>
                loop_err b
                  (flat_map (fun sub =>
                     match get_indexes sub (Z.of_nat (List.length xs)) with
                     | IOk idxs => flat_map (fun i => match nth_value xs i with
                                                      | Some v => [of_opt (idxf (i, v))]
                                                      | None => []
                                                      end) idxs
                     | IPanic => []
                     end) subs)
            | v => Some (EType b "array" (go_type v))
            end
        | KFilter q =>
            match snd cur with
            | VObj m =>
                let keys := sorted_keys m in
                let vals := flat_map (fun k => match lookup m k with Some v => [v] | None => [] end) keys in
                loop_err b (flat_map (fun kb : string * bool => if snd kb then [of_opt (keyf m (fst kb))] else [])
                                     (combine keys (holds q root vals)))
            | VArr xs =>
                loop_err b (flat_map (fun ib : (Z * value) * bool => if snd ib then [of_opt (idxf (fst ib))] else [])
                                     (combine (index_list xs 0) (holds q root xs)))
            | v => Some (EType b "object/array" (go_type v))
            end
        | KFFun f =>
            match ffun f (snd cur) with
            | None => Some (EFunc b)
            | Some v => fwd (None, v)
            end
        | KAgg f param =>
            match serr param root cur with
            | Some e => Some e
            | None =>
                let plain := map (fun x => res_value (wrap x)) (sp param root cur) in
                let args := if vgroup (node_basic param) then plain
                            else match plain with VArr xs :: _ => xs | _ => plain end in
                match afun f args with
                | None => Some (EFunc b)
                | Some v => fwd (None, v)
                end
            end
        end
    end
  with serr_ids (ids : nodes) (m : list (string * value)) (root : value) (cur : cursor) {struct ids} : list bout :=
    match ids with
    | NNil => []
    | NCons id rest =>
        (match node_kind id with
         | KSingle key => match lookup m key with None => BNop | Some _ => of_opt (serr id root cur) end
         | _ => of_opt (serr id root cur)
         end) :: serr_ids rest m root cur
    end.

  (* the error of a whole retrieval, by the specification (None: the retrieval succeeds) *)
  Definition spec_error (t : node) (doc : value) : option rerr := serr t doc (Some [], doc).
End ErrSpec.
