From Coq Require Import ZArith List Lia Bool.
Import ListNotations.
Open Scope Z_scope.

(* ---------- model of syntax_subscript_slice_positive_step.go (repaired: clamped step) ---------- *)
Definition two63 : Z := 9223372036854775808.
Definition two62 : Z := 4611686018427387904.
Definition wrap (x:Z) : Z := ((x + two63) mod 18446744073709551616) - two63.      (* Go int64 arithmetic *)
Definition in64 (x:Z) := - two63 <= x < two63.

Record idx := { number : Z; omitted : bool }.

Definition norm_pos (value len : Z) : Z :=
  let value := if value <? 0 then (let v := wrap (value + len) in if v <? 0 then 0 else v) else value in
  if value >? len then len else value.

Definition loop_start_pos (s:idx) (len:Z) := norm_pos (if omitted s then 0 else number s) len.
Definition loop_end_pos (e:idx) (len:Z) := norm_pos (if omitted e then len else number e) len.

Inductive res := Ok (l:list Z) | Panic.

(* for i := start; i < end; i += step { result[index] = i; index++ }  with result := make([]int, len) *)
Fixpoint loop_pos (fuel:nat) (i e step len : Z) (index:Z) (acc:list Z) : res :=
  match fuel with
  | O => Panic   (* out of fuel: reported as a panic so that the theorem must exclude it *)
  | S f => if i <? e then
             if index <? len then loop_pos f (wrap (i + step)) e step len (index+1) (acc ++ [i])
             else Panic                           (* index out of range on result[index] *)
           else Ok acc
  end.

Definition get_indexes_pos (st en sp : idx) (len:Z) : res :=
  let ls := loop_start_pos st len in
  let le := loop_end_pos en len in
  let stepn := if omitted sp then 1 else number sp in     (* the grammar action defaults step to 1 *)
  if stepn >? 0 then
    let step := if stepn >? len then len else stepn in
    loop_pos (Z.to_nat len + 1) ls le step len 0 []
  else Ok [].

(* ---------- independent specification: Python's slice.indices + range, positive step ---------- *)
Definition py_bound_pos (v: option Z) (dflt len : Z) : Z :=
  match v with
  | None => dflt
  | Some v => if v <? 0 then Z.max (v + len) 0 else Z.min v len
  end.

Fixpoint range_up (n:nat) (s step:Z) : list Z :=
  match n with O => [] | S k => s :: range_up k (s+step) step end.

Definition py_slice_pos (st en : option Z) (step len : Z) : list Z :=
  let s := py_bound_pos st 0 len in
  let e := py_bound_pos en len len in
  if e <=? s then [] else range_up (Z.to_nat ((e - s + step - 1) / step)) s step.

Definition opt (i:idx) : option Z := if omitted i then None else Some (number i).

(* ---------- lemmas ---------- *)
Lemma wrap_id x : in64 x -> wrap x = x.
Proof. unfold wrap, in64, two63, two62 in *. intros H. rewrite Z.mod_small; lia. Qed.

Lemma norm_pos_spec v len : in64 v -> 0 <= len < two62 ->
  norm_pos v len = (if v <? 0 then Z.max (v + len) 0 else Z.min v len).
Proof.
  unfold norm_pos, in64, two63, two62 in *. intros Hv Hl.
  destruct (v <? 0) eqn:E.
  - rewrite wrap_id by (unfold in64, two63, two62 in *; lia).
    destruct (v + len <? 0) eqn:E2; destruct (_ >? len) eqn:E3; lia.
  - destruct (v >? len) eqn:E3; lia.
Qed.

Lemma loop_pos_spec : forall fuel i e step len index acc,
  0 < step <= len \/ (0 < step /\ e <= i) -> 0 <= i -> e <= len -> len < two62 -> 0 <= index ->
  (* enough buffer and fuel for the remaining iterations *)
  (i < e -> index + (e - i + step - 1) / step <= len) ->
  (Z.of_nat fuel > (if i <? e then (e - i + step - 1) / step else 0)) ->
  loop_pos fuel i e step len index acc =
  Ok (acc ++ (if e <=? i then [] else range_up (Z.to_nat ((e - i + step - 1) / step)) i step)).
Proof.
  induction fuel as [|f IH]; intros i e step len index acc Hs Hi He Hl Hidx Hbuf Hfuel.
  - destruct (i <? e) eqn:E; [|lia].
    assert (1 <= (e - i + step - 1) / step) by (apply Z.div_le_lower_bound; lia). lia.
  - cbn [loop_pos]. destruct (i <? e) eqn:E.
    + assert (Hlt: i < e) by lia. specialize (Hbuf Hlt).
      assert (Hstep: 0 < step <= len) by lia.
      assert (Hq: 1 <= (e - i + step - 1) / step).
      { apply Z.div_le_lower_bound; lia. }
      destruct (index <? len) eqn:E2; [|lia].
      rewrite wrap_id by (unfold in64, two63, two62 in *; lia).
      destruct (e <=? i) eqn:E3; [lia|].
      assert (Hdec: (e - i + step - 1) / step = 1 + (e - (i+step) + step - 1) / step).
      { replace (e - i + step - 1) with (1 * step + (e - (i + step) + step - 1)) by lia.
        rewrite Z.div_add_l by lia. reflexivity. }
      assert (Hq': 0 <= (e - (i + step) + step - 1) / step) by (apply Z.div_pos; lia).
      assert (P1: 0 < step <= len \/ 0 < step /\ e <= i + step) by lia.
      assert (P6: i + step < e -> index + 1 + (e - (i + step) + step - 1) / step <= len) by lia.
      assert (P7: Z.of_nat f > (if i + step <? e then (e - (i + step) + step - 1) / step else 0)).
      { destruct (i + step <? e) eqn:E5; lia. }
      rewrite (IH (i+step) e step len (index+1) (acc ++ [i]) P1 ltac:(lia) He Hl ltac:(lia) P6 P7).
      rewrite <- app_assoc. f_equal. cbn [app].
      rewrite Hdec.
      destruct (e <=? i + step) eqn:E4.
      * assert (Hz: (e - (i + step) + step - 1) / step = 0) by (apply Z.div_small; lia).
        rewrite Hz. reflexivity.
      * rewrite Z2Nat.inj_add by lia. reflexivity.
    + destruct (e <=? i) eqn:E3; [|lia]. rewrite app_nil_r. reflexivity.
Qed.

Lemma loop_pos_run s e step len :
  0 <= s <= len -> 0 <= e <= len -> len < two62 -> (0 < step <= len \/ (0 < step /\ e <= s)) ->
  loop_pos (Z.to_nat len + 1) s e step len 0 [] =
  Ok (if e <=? s then [] else range_up (Z.to_nat ((e - s + step - 1) / step)) s step).
Proof.
  intros Hs He Hl Hstep.
  assert (Hq: s < e -> (e - s + step - 1) / step <= e - s).
  { intros. apply Z.div_le_upper_bound; nia. }
  rewrite loop_pos_spec; try assumption; try lia.
  - reflexivity.
  - destruct (s <? e) eqn:E; [|lia]. specialize (Hq ltac:(lia)). lia.
Qed.

Theorem slice_pos_python : forall st en sp len,
  0 <= len < two62 ->
  in64 (number st) -> in64 (number en) -> in64 (number sp) ->
  let stepn := if omitted sp then 1 else number sp in
  0 < stepn ->
  get_indexes_pos st en sp len = Ok (py_slice_pos (opt st) (opt en) stepn len).
Proof.
  intros st en sp len Hl Hs He Hp stepn Hpos.
  unfold get_indexes_pos, py_slice_pos, loop_start_pos, loop_end_pos, opt.
  fold stepn. destruct (stepn >? 0) eqn:E; [|lia].
  set (s := py_bound_pos (if omitted st then None else Some (number st)) 0 len).
  set (e := py_bound_pos (if omitted en then None else Some (number en)) len len).
  assert (Hs': norm_pos (if omitted st then 0 else number st) len = s).
  { subst s. destruct (omitted st); cbn [py_bound_pos].
    - rewrite norm_pos_spec by (unfold in64, two63, two62 in *; lia). cbn. lia.
    - apply norm_pos_spec; auto. }
  assert (He': norm_pos (if omitted en then len else number en) len = e).
  { subst e. destruct (omitted en); cbn [py_bound_pos].
    - rewrite norm_pos_spec by (unfold in64, two63, two62 in *; lia). destruct (len <? 0) eqn:?; lia.
    - apply norm_pos_spec; auto. }
  rewrite Hs', He'.
  assert (Hsr: 0 <= s <= len).
  { subst s. destruct (omitted st); cbn [py_bound_pos]; [lia|]. destruct (_ <? 0) eqn:?; lia. }
  assert (Her: 0 <= e <= len).
  { subst e. destruct (omitted en); cbn [py_bound_pos]; [lia|]. destruct (_ <? 0) eqn:?; lia. }
  (* clamped step selects the same indices *)
  destruct (stepn >? len) eqn:Ec.
  - destruct (Z.eq_dec len 0) as [Hz|Hnz].
    { replace s with 0 by lia. replace e with 0 by lia. rewrite Hz. reflexivity. }
    rewrite loop_pos_run by lia.
    destruct (e <=? s) eqn:Ees; [reflexivity|].
    assert (Q1: (e - s + len - 1) / len = 1).
    { symmetry. apply Z.div_unique with (r := e - s - 1); lia. }
    assert (Q2: (e - s + stepn - 1) / stepn = 1).
    { symmetry. apply Z.div_unique with (r := e - s - 1); lia. }
    rewrite Q1, Q2. reflexivity.
  - rewrite loop_pos_run by lia. reflexivity.
Qed.

Print Assumptions slice_pos_python.
