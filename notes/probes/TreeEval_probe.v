From Coq Require Import List String ZArith Bool Lia.
Import ListNotations.
Open Scope string_scope.

Inductive value : Type :=
| VNull | VBool (b:bool) | VNum (z:Z) | VStr (s:string)
| VArr (l: list value) | VObj (m: list (string*value)) | VEmpty.

Inductive sub := SIdx (n:Z) | SWild.

Inductive node : Type :=
| N (k: kind) (vg acc: bool) (text ctext: string) (next: option node)
with kind : Type :=
| KRoot | KCur | KSingle (key:string) | KWild
| KMulti (ids: nodes) (allw: bool)
| KRec (mr lr: bool)
| KUnion (subs: list sub)
| KFilter (q: query)
| KAgg (f: nat) (param: node)
with nodes : Type := NNil | NCons (n:node) (ns:nodes)
with query : Type :=
| QAnd (a b: query) | QOr (a b: query) | QNot (a: query)
| QCmp (l r: pq) (c: nat)
| QEx (p: pq)
with pq : Type := PLit (v:value) | PCur (n:node) | PRoot (n:node).

Inductive err := EMember (t:string) | EType (t:string) | EPanic.

Definition cont := list value.

Fixpoint lookup (m: list (string*value)) (k:string) : option value :=
  match m with [] => None | (k',v)::r => if String.eqb k k' then Some v else lookup r k end.

(* pre-order containers of a value *)
Fixpoint containers (v: value) : list value :=
  match v with
  | VArr l => v :: flat_map containers l
  | VObj m => v :: flat_map (fun kv => containers (snd kv)) m
  | _ => []
  end.

Definition members (v:value) : option (list value) :=
  match v with VArr l => Some l | VObj m => Some (map snd m) | _ => None end.

Section Eval.
Variable agg : nat -> list value -> option value.

Definition loop (f: value -> cont -> cont * option err) (vs: list value) (c: cont) : cont * option err :=
  fold_left (fun '(c, e) v => let '(c', e') := f v c in
                              (c', match c' with [] => (match e with None => e' | _ => e end) | _ => None end)) vs (c, None).

Fixpoint retrieve (n: node) (root cur: value) (c: cont) {struct n} : cont * option err :=
  match n with
  | N k vg acc text ctext next =>
    let continue := fun (v:value) (c:cont) =>
        match next with
        | Some nx => retrieve nx root v c
        | None => ((c ++ [v])%list, None)
        end in
    match k with
    | KRoot => continue root c
    | KCur => continue cur c
    | KSingle key =>
        match cur with
        | VObj m => match lookup m key with Some v => continue v c | None => (c, Some (EMember text)) end
        | _ => (c, Some (EType text))
        end
    | KWild =>
        match members cur with
        | Some vs => let '(c', e) := loop continue vs c in
                     (c', match c' with [] => Some (match e with Some e => e | None => EMember text end) | _ => None end)
        | None => (c, Some (EType text))
        end
    | KMulti ids allw => retrieve_ids ids root cur c
    | KRec mr lr =>
        match next with
        | Some nx => loop (fun v c => retrieve nx root v c) (containers cur) c
        | None => (c, Some EPanic)
        end
    | KUnion subs => (c, None)
    | KFilter q =>
        match members cur with
        | Some vs => let verdict := compute q root vs in
                     loop continue (map fst (filter (fun p => match snd p with VEmpty => false | _ => true end) (combine vs verdict))) c
        | None => (c, Some (EType text))
        end
    | KAgg f param =>
        let '(vals, e) := retrieve param root cur [] in
        match e with
        | Some e => (c, Some e)
        | None => match agg f vals with Some v => continue v c | None => (c, Some (EMember text)) end
        end
    end
  end
with retrieve_ids (ns: nodes) (root cur: value) (c: cont) {struct ns} : cont * option err :=
  match ns with
  | NNil => (c, None)
  | NCons n r => let '(c', _) := retrieve n root cur c in retrieve_ids r root cur c'
  end
with compute (q: query) (root: value) (curs: list value) {struct q} : list value :=
  match q with
  | QAnd a b => let l := compute a root curs in let r := compute b root curs in
                map (fun '(x,y) => match y with VEmpty => VEmpty | _ => x end) (combine l r)
  | QOr a b => compute a root curs
  | QNot a => map (fun x => match x with VEmpty => VBool true | _ => VEmpty end) (compute a root curs)
  | QCmp l r c => computep l root curs
  | QEx p => computep p root curs
  end
with computep (p: pq) (root: value) (curs: list value) {struct p} : list value :=
  match p with
  | PLit v => [v]
  | PCur n => map (fun v => match retrieve n root v [] with (x::_, None) => x | _ => VEmpty end) curs
  | PRoot n => match retrieve n root root [] with (x::_, None) => [x] | _ => [VEmpty] end
  end.
End Eval.

Require Import Extraction ExtrOcamlBasic.
Extraction "probe.ml" retrieve.
