From Coq Require Import List Bool Arith Lia.
Import ListNotations.

(* A verdict entry: None = the library's empty marker, Some v = some value (match). *)
Section V.
Variable A : Type.
Variable tt_ : A.                      (* the value `true` written by NOT / fullList *)
Notation entry := (option A).
Definition emptyList : list entry := [None].
Definition fullList  : list entry := [Some tt_].

Definition isE (x:entry) := match x with None => true | Some _ => false end.
Definition hd_isE (l:list entry) := match l with x :: _ => isE x | [] => true end.  (* l[0] on [] would panic; see wf *)

(* syntax_query_logical_and.go, with the two operands already computed (Own lists) *)
Definition and_l (L R : list entry) : list entry :=
  if length L =? 1 then (if hd_isE L then L else R)
  else if length R =? 1 then (if hd_isE R then R else L)
  else
    let merged := map (fun '(l, r) => if isE r then None else l) (combine L R) in
    if existsb (fun x => negb (isE x)) merged then merged else emptyList.

Definition or_l (L R : list entry) : list entry :=
  if length L =? 1 then (if hd_isE L then R else L)
  else if length R =? 1 then (if hd_isE R then L else R)
  else map (fun '(l, r) => if isE r then l else r) (combine L R).

Definition not_l (L : list entry) : list entry :=
  if length L =? 1 then (if hd_isE L then fullList else emptyList)
  else
    let flipped := map (fun x => if isE x then Some tt_ else None) L in
    if existsb (fun x => negb (isE x)) flipped then flipped else emptyList.

(* what the filter node does with a verdict list over n members: is member i selected? *)
Definition den (n:nat) (L:list entry) (i:nat) : bool :=
  (i <? n) &&
  (if length L =? n then negb (isE (nth i L None))          (* isEachResult *)
   else negb (hd_isE L)).                                    (* whole match on valueList[0] *)

(* lists produced by the query code have length n (per member) or 1 (whole) *)
Definition wf (n:nat) (L:list entry) := length L = n \/ length L = 1.

Lemma nth_map_combine {B C D} (f: B*C -> D) (l1: list B) (l2: list C) i d1 d2 d :
  length l1 = length l2 -> i < length l1 ->
  nth i (map f (combine l1 l2)) d = f (nth i l1 d1, nth i l2 d2).
Proof.
  revert l2 i. induction l1 as [|a l1 IH]; intros [|b l2] i Hl Hi; simpl in *; try lia.
  destruct i; [reflexivity|]. apply IH; lia.
Qed.

Lemma existsb_false_nth (l:list entry) :
  existsb (fun x => negb (isE x)) l = false -> forall i, isE (nth i l None) = true.
Proof.
  induction l as [|a l IH]; intros H i; simpl in *.
  - destruct i; reflexivity.
  - apply orb_false_iff in H as [Ha Hl]. destruct i; [destruct a; simpl in *; congruence|]. auto.
Qed.

Lemma wf_and n L R : wf n L -> wf n R -> wf n (and_l L R).
Proof.
  unfold wf, and_l. intros HL HR.
  destruct (length L =? 1) eqn:E1; [destruct (hd_isE L); auto|].
  destruct (length R =? 1) eqn:E2; [destruct (hd_isE R); auto|].
  apply Nat.eqb_neq in E1, E2.
  destruct (existsb _ _); [|right; reflexivity].
  left. rewrite map_length, combine_length. lia.
Qed.

Theorem den_and n L R i : wf n L -> wf n R ->
  den n (and_l L R) i = den n L i && den n R i.
Proof.
  intros HL HR. unfold den.
  destruct (i <? n) eqn:Hi; [|reflexivity]. apply Nat.ltb_lt in Hi. cbn [andb].
  unfold and_l.
  destruct (length L =? 1) eqn:E1.
  - apply Nat.eqb_eq in E1.
    destruct L as [|x [|y L']]; simpl in E1; try lia. cbn [hd_isE length].
    destruct (isE x) eqn:Ex.
    + (* left is whole-false *)
      cbn [length]. destruct (1 =? n) eqn:En.
      * apply Nat.eqb_eq in En. subst n. assert (i = 0) by lia. subst i. cbn. rewrite ?Ex. reflexivity.
      * cbn [hd_isE]. rewrite ?Ex. reflexivity.
    + (* left is whole-true: result is R *)
      destruct (1 =? n) eqn:En.
      * apply Nat.eqb_eq in En. subst n. assert (i = 0) by lia. subst i. cbn [nth]. rewrite ?Ex. reflexivity.
      * cbn [hd_isE]. rewrite ?Ex. reflexivity.
  - apply Nat.eqb_neq in E1. assert (HLn: length L = n) by (destruct HL; lia).
    destruct (length R =? 1) eqn:E2.
    + apply Nat.eqb_eq in E2. assert (Hn1: n <> 1) by lia.
      destruct R as [|x [|y R']]; simpl in E2; try lia. cbn [hd_isE length].
      assert (E3: (1 =? n) = false) by (apply Nat.eqb_neq; lia).
      destruct (isE x) eqn:Ex.
      * cbn [length hd_isE]. rewrite ?E3, ?Ex. cbn. rewrite andb_false_r. reflexivity.
      * rewrite E3. cbn [hd_isE]. rewrite ?Ex. cbn. rewrite andb_true_r. reflexivity.
    + apply Nat.eqb_neq in E2. assert (HRn: length R = n) by (destruct HR; lia).
      rewrite HLn, HRn, Nat.eqb_refl.
      set (merged := map _ (combine L R)).
      assert (Hm: nth i merged None = if isE (nth i R None) then None else nth i L None).
      { unfold merged. rewrite nth_map_combine with (d1:=None) (d2:=None) by lia. reflexivity. }
      assert (Hlen: length merged = n).
      { unfold merged. rewrite map_length, combine_length. lia. }
      destruct (existsb _ merged) eqn:Hex.
      * rewrite Hlen, Nat.eqb_refl, Hm. destruct (isE (nth i R None)); cbn; [rewrite andb_false_r|rewrite andb_true_r]; reflexivity.
      * pose proof (existsb_false_nth merged Hex i) as Hn. rewrite Hm in Hn.
        unfold emptyList. cbn [length hd_isE isE].
        assert (E3: (1 =? n) = false) by (apply Nat.eqb_neq; lia). rewrite E3. cbn.
        destruct (isE (nth i R None)); cbn; [rewrite andb_false_r; reflexivity|].
        rewrite Hn. reflexivity.
Qed.
End V.
Print Assumptions den_and.
