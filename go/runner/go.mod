module verifrunner

go 1.21

require github.com/AsaiYusuke/jsonpath v0.0.0

replace github.com/AsaiYusuke/jsonpath => /repo
