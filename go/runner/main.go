// Command runner executes harness cases against the real library (built from /repo's
// working tree with -tags verif) and prints one canonical observation line per case, in the
// format the extracted Coq model's driver prints.
//
//	runner worker            read JSON cases on stdin, one observation line per case
//	runner run -j N -t MS    master: spread the cases on stdin over N workers, with a per-case
//	                         time limit; a dead worker is an observation ("crash"), not an error
//	runner oracle            answer strconv.ParseFloat / regexp questions directly (never via jsonpath)
//	runner kinds             print the table of non-JSON Go values the harness can plant
package main

import (
	"bufio"
	"encoding/hex"
	"encoding/json"
	"flag"
	"fmt"
	"io"
	"os"
	"os/exec"
	"sync"
	"time"
)

type docT = json.RawMessage

type opT struct {
	Op       string   `json:"op"` // parse | call | retrieve | reread | churn
	Slot     int      `json:"slot"`
	Path     string   `json:"path_hex"`
	Filters  []string `json:"filters"`
	Aggs     []string `json:"aggs"`
	Acc      bool     `json:"acc"`
	NoCfg    bool     `json:"nocfg"`
	Doc      docT     `json:"doc"`
	K        int      `json:"k"`
	Mutate   bool     `json:"mutate"`
	CfgRef   int      `json:"cfg_ref"`  // parse/retrieve: reuse the Config OBJECT built by operation number cfg_ref-1 (0 = a fresh Config)
	Filters2 []string `json:"filters2"` // parse/retrieve: a SECOND Config passed after the first (the library documents that only the first is used)
	Aggs2    []string `json:"aggs2"`
	Reenter  docT     `json:"reenter"` // call: while the call runs, the function "id" calls the same parsed function on this document
	DocRef   int      `json:"doc_ref"` // call: use (and keep) the document OBJECT of slot doc_ref instead of building a fresh one (0 = fresh)
	Rename   []string `json:"rename"`  // call with doc_ref: before the call, rename this member of the kept root object in place (hex from, hex to)
	AllFail  bool     `json:"allfail"` // parse/retrieve without cfg_ref: register every name of filters/aggs with a function that always fails
	CopyOf   int      `json:"copy_of"` // parse/retrieve: the Config is a VALUE COPY of the Config of operation number copy_of-1, on which add_filters / add_aggs are then registered
	AddFilters []string `json:"add_filters"`
	AddAggs    []string `json:"add_aggs"`
	Burn     int      `json:"burn"`    // parse/retrieve: before the call, Parse the path `$` this many times (tens of thousands of unrelated calls in between)
	BurnHeld int      `json:"burn_held"` // retrieve: between Parse and the call of the function it returned, Parse this many unrelated filters with fresh literals (the function is HELD meanwhile)
}

type caseT struct {
	ID      string   `json:"id"`
	Mode    string   `json:"mode"` // eval | loc | tree | hist | conc | parseonly
	Path    string   `json:"path_hex"`
	Filters []string `json:"filters"`
	Aggs    []string `json:"aggs"`
	Acc     bool     `json:"acc"`
	NoCfg   bool     `json:"nocfg"`
	Docs    []docT   `json:"docs"`
	Pre     string   `json:"pre_hex"` // a path parsed (result ignored) right before the case: ambient history
	Alias   bool     `json:"alias"`   // build equal sub-containers of a document as ONE shared Go object
	Packed  int      `json:"packed"`  // > 0: carve all arrays of a document out of ONE backing array, in an order derived from this number
	Ops     []opT    `json:"ops"`
	// conc
	Threads int `json:"threads"`
	Rounds  int `json:"rounds"`
	// oracle questions
	Floats  []string    `json:"floats_hex"`
	Regexes []string    `json:"regexes_hex"`
	Matches [][2]string `json:"matches_hex"`
}

func unhex(s string) string {
	if s == "-" || s == "" {
		return ""
	}
	b, err := hex.DecodeString(s)
	if err != nil {
		panic("bad hex: " + s)
	}
	return string(b)
}

func hx(s string) string {
	if s == "" {
		return "-"
	}
	return hex.EncodeToString([]byte(s))
}

func main() {
	if len(os.Args) < 2 {
		fmt.Fprintln(os.Stderr, "usage: runner worker|run|oracle|kinds")
		os.Exit(2)
	}
	switch os.Args[1] {
	case "worker":
		worker()
	case "run":
		fs := flag.NewFlagSet("run", flag.ExitOnError)
		j := fs.Int("j", 8, "workers")
		t := fs.Int("t", 10000, "per-case timeout in ms")
		fs.Parse(os.Args[2:])
		master(*j, time.Duration(*t)*time.Millisecond)
	case "coldhistchild":
		coldHistChild()
	case "coldchild":
		coldChild()
	case "deepchild":
		deepChild()
	case "oracle":
		oracle()
	case "kinds":
		printKinds()
	default:
		fmt.Fprintln(os.Stderr, "unknown mode")
		os.Exit(2)
	}
}

func worker() {
	in := bufio.NewReaderSize(os.Stdin, 1<<20)
	out := bufio.NewWriter(os.Stdout)
	for {
		line, err := in.ReadBytes('\n')
		if len(line) > 1 {
			var c caseT
			if e := json.Unmarshal(line, &c); e != nil {
				fmt.Fprintf(out, "?\tRUNNER_ERROR=%s\n", hx(e.Error()))
			} else {
				ambientHistory()
				fmt.Fprintln(out, runCase(&c))
			}
			out.Flush()
		}
		if err != nil {
			return
		}
	}
}

type job struct {
	idx  int
	id   string
	line []byte
}

// master distributes cases over worker subprocesses. Each worker handles one case at a
// time, so a crash or a hang is attributed to exactly that case.
func master(nworkers int, limit time.Duration) {
	in := bufio.NewReaderSize(os.Stdin, 1<<20)
	var jobs []job
	for {
		line, err := in.ReadBytes('\n')
		if len(line) > 1 {
			var c struct {
				ID string `json:"id"`
			}
			json.Unmarshal(line, &c)
			cp := make([]byte, len(line))
			copy(cp, line)
			if cp[len(cp)-1] != '\n' {
				cp = append(cp, '\n')
			}
			jobs = append(jobs, job{len(jobs), c.ID, cp})
		}
		if err != nil {
			break
		}
	}
	results := make([]string, len(jobs))
	ch := make(chan job)
	var wg sync.WaitGroup
	self, _ := os.Executable()
	for w := 0; w < nworkers; w++ {
		wg.Add(1)
		go func() {
			defer wg.Done()
			var cmd *exec.Cmd
			var stdin io.WriteCloser
			var stdout *bufio.Reader
			start := func() {
				cmd = exec.Command(self, "worker")
				cmd.Stderr = nil
				stdin, _ = cmd.StdinPipe()
				so, _ := cmd.StdoutPipe()
				stdout = bufio.NewReaderSize(so, 1<<20)
				if err := cmd.Start(); err != nil {
					panic(err)
				}
			}
			stop := func() {
				if cmd != nil {
					stdin.Close()
					cmd.Process.Kill()
					cmd.Wait()
					cmd = nil
				}
			}
			start()
			for jb := range ch {
				type rd struct {
					s   string
					err error
				}
				done := make(chan rd, 1)
				stdin.Write(jb.line)
				go func(r *bufio.Reader) {
					s, err := r.ReadString('\n')
					done <- rd{s, err}
				}(stdout)
				select {
				case r := <-done:
					if r.err != nil || len(r.s) == 0 {
						results[jb.idx] = jb.id + "\tP=crash"
						stop()
						start()
					} else {
						results[jb.idx] = r.s[:len(r.s)-1]
					}
				case <-time.After(limit):
					results[jb.idx] = jb.id + "\tP=timeout"
					stop()
					start()
				}
			}
			stop()
		}()
	}
	for _, jb := range jobs {
		ch <- jb
	}
	close(ch)
	wg.Wait()
	out := bufio.NewWriter(os.Stdout)
	for _, r := range results {
		fmt.Fprintln(out, r)
	}
	out.Flush()
}
