package main

import (
	"bufio"
	"encoding/json"
	"fmt"
	"math"
	"os"
	"regexp"
	"strconv"
	"strings"
)

// oracle answers questions about Go's own library functions by calling them directly:
// strconv.ParseFloat(text, 64), regexp.Compile(text), regexp.MatchString.
func oracle() {
	in := bufio.NewReaderSize(os.Stdin, 1<<20)
	out := bufio.NewWriter(os.Stdout)
	defer out.Flush()
	for {
		line, err := in.ReadBytes('\n')
		if len(line) > 1 {
			var c caseT
			if e := json.Unmarshal(line, &c); e != nil {
				fmt.Fprintf(out, "?\tORACLE_ERROR\n")
			} else {
				var b strings.Builder
				b.WriteString(c.ID)
				b.WriteString("\tpf=")
				for i, h := range c.Floats {
					if i > 0 {
						b.WriteString(";")
					}
					f, e := strconv.ParseFloat(unhex(h), 64)
					if e != nil {
						b.WriteString(h + ":err")
					} else if math.IsInf(f, 0) || math.IsNaN(f) {
						b.WriteString(h + ":" + renderNum(f))
					} else {
						b.WriteString(h + ":" + renderNum(f))
					}
				}
				b.WriteString("\trx=")
				compiled := map[string]*regexp.Regexp{}
				for i, h := range c.Regexes {
					if i > 0 {
						b.WriteString(",")
					}
					re, e := regexp.Compile(unhex(h))
					if e != nil {
						b.WriteString(h + ":0")
					} else {
						compiled[h] = re
						b.WriteString(h + ":1")
					}
				}
				b.WriteString("\trm=")
				for i, m := range c.Matches {
					if i > 0 {
						b.WriteString(",")
					}
					re := compiled[m[0]]
					if re == nil {
						var e error
						re, e = regexp.Compile(unhex(m[0]))
						if e != nil {
							b.WriteString(m[0] + ":" + m[1] + ":0")
							continue
						}
						compiled[m[0]] = re
					}
					if re.MatchString(unhex(m[1])) {
						b.WriteString(m[0] + ":" + m[1] + ":1")
					} else {
						b.WriteString(m[0] + ":" + m[1] + ":0")
					}
				}
				fmt.Fprintln(out, b.String())
			}
		}
		if err != nil {
			return
		}
	}
}
