package main

import (
	"bufio"
	"encoding/json"
	"fmt"
	"os"
	"os/exec"
	"runtime/debug"
	"strings"
	"sync"
	"sync/atomic"
	"time"

	"github.com/AsaiYusuke/jsonpath"
)

func dumpTree(path string, cfg *jsonpath.Config) string {
	var s string
	var err error
	if cfg == nil {
		s, err = jsonpath.VerifDumpTree(path, render, hx)
	} else {
		s, err = jsonpath.VerifDumpTree(path, render, hx, *cfg)
	}
	if err != nil {
		return "error:" + hx(err.Error())
	}
	return s
}

// runHist executes a history of Parse / call / Retrieve operations in one process and prints
// one observation per operation (O<k>=…), the parser residue after every Parse, the
// package-level verdict lists at the end, and earlier result slices re-read at the end.
func runHist(c *caseT) string {
	var b strings.Builder
	b.WriteString(c.ID)
	slots := map[int]fn{}
	recs := map[int]*recorder{}
	cfgs := map[int]*jsonpath.Config{}
	cfgRecs := map[int]*recorder{}
	docSlots := map[int]interface{}{}
	type kept struct {
		res    []interface{}
		render string
		op     int
		grown  []interface{} // the caller appends to its result: the spare capacity is the caller's too
	}
	var keep []kept
	sentinel := "caller-owned"
	grow := func(res []interface{}) []interface{} {
		if cap(res) > len(res) {
			return append(res, sentinel)
		}
		return nil
	}
	for k, op := range c.Ops {
		switch op.Op {
		case "parse", "retrieve":
			for i := 0; i < op.Burn; i++ {
				jsonpath.Parse("$")
			}
			rec := &recorder{}
			var cfgp *jsonpath.Config
			if op.CfgRef > 0 && cfgs[op.CfgRef-1] != nil {
				cfgp = cfgs[op.CfgRef-1]
				rec = cfgRecs[op.CfgRef-1]
			} else if op.CopyOf > 0 && cfgs[op.CopyOf-1] != nil {
				// a Config VALUE copied from an earlier one (`derived := base`), then given further functions: Configs are values,
				// registering on the copy must not register on the original
				cfg := *cfgs[op.CopyOf-1]
				rec = cfgRecs[op.CopyOf-1]
				for _, name := range op.AddFilters {
					cfg.SetFilterFunction(name, filterFunc(name, rec))
				}
				for _, name := range op.AddAggs {
					cfg.SetAggregateFunction(name, aggFunc(name, rec))
				}
				cfgp = &cfg
			} else if !op.NoCfg {
				cfg := makeConfig(op.Filters, op.Aggs, op.Acc, rec)
				if op.AllFail {
					// what a Config looks like after `mutate`: the same names, every function replaced by one that fails
					for _, name := range op.Filters {
						cfg.SetFilterFunction(name, filterFunc("fail", nil))
					}
					for _, name := range op.Aggs {
						cfg.SetAggregateFunction(name, aggFunc("afail", nil))
					}
				}
				cfgp = &cfg
			}
			cfgs[k] = cfgp
			cfgRecs[k] = rec
			var f fn
			var obs string
			if cfgp != nil && (len(op.Filters2) > 0 || len(op.Aggs2) > 0) {
				cfg2 := makeConfig(op.Filters2, op.Aggs2, false, rec)
				f, obs, _ = parseObs2(unhex(op.Path), cfgp, &cfg2)
			} else {
				f, obs, _ = parseObs(unhex(op.Path), cfgp)
			}
			residue := jsonpath.VerifParserResidue()
			if residue != "" {
				obs += "!residue:" + residue
			}
			if op.Mutate && cfgp != nil {
				// the Config is modified after Parse: the parsed function must keep its functions
				for _, name := range op.Filters {
					cfgp.SetFilterFunction(name, filterFunc("fail", nil))
				}
				for _, name := range op.Aggs {
					cfgp.SetAggregateFunction(name, aggFunc("afail", nil))
				}
			}
			if op.Op == "parse" {
				slots[op.Slot] = f
				recs[op.Slot] = rec
				fmt.Fprintf(&b, "\tO%d=%s", k, obs)
				continue
			}
			if f == nil {
				fmt.Fprintf(&b, "\tO%d=%s", k, obs)
				continue
			}
			for i := 0; i < op.BurnHeld; i++ {
				// literals of every kind, all distinct from one another and from anything a generated path holds
				jsonpath.Parse(fmt.Sprintf("$[?(@.zz == %d || @.zz == 'held-%d' || @.zz =~ /h%d/)]", 7000000+i, i, i))
			}
			doc := buildDoc(op.Doc)
			res, eobs := evalObs(f, doc)
			fmt.Fprintf(&b, "\tO%d=%s|%s", k, eobs, rec.take())
			if res != nil {
				keep = append(keep, kept{res, eobs, k, grow(res)})
			}
		case "call":
			f := slots[op.Slot]
			if f == nil {
				fmt.Fprintf(&b, "\tO%d=noslot", k)
				continue
			}
			doc := buildDoc(op.Doc)
			if op.DocRef > 0 {
				// the caller keeps one document object and edits it in place between calls
				if d, ok := docSlots[op.DocRef]; ok {
					doc = d
				} else {
					docSlots[op.DocRef] = doc
				}
				if m, ok := doc.(map[string]interface{}); ok && len(op.Rename) == 2 {
					from, to := unhex(op.Rename[0]), unhex(op.Rename[1])
					if v, ok := m[from]; ok {
						delete(m, from)
						m[to] = v
					}
				}
			}
			before := render(doc)
			recs[op.Slot].take()
			if len(op.Reenter) > 0 && string(op.Reenter) != "null" {
				other := buildDoc(op.Reenter)
				rc := recs[op.Slot]
				reenterHook = func() {
					rc.mu.Lock()
					rc.muted = true
					rc.mu.Unlock()
					defer func() {
						recover()
						rc.mu.Lock()
						rc.muted = false
						rc.mu.Unlock()
					}()
					f(other)
				}
			}
			res, eobs := evalObs(f, doc)
			reenterHook = nil
			fmt.Fprintf(&b, "\tO%d=%s|%s", k, eobs, recs[op.Slot].take())
			if render(doc) != before {
				fmt.Fprintf(&b, "!mutated")
			}
			if res != nil {
				keep = append(keep, kept{res, eobs, k, grow(res)})
			}
		case "churn":
			// unrelated work that recycles the pooled buffers
			for i := 0; i < 4; i++ {
				jsonpath.Retrieve("$..*", []interface{}{map[string]interface{}{"x": []interface{}{"p", "q", "r"}}, "y", 9.0})
				jsonpath.Retrieve("$[?(@.x)]", []interface{}{map[string]interface{}{"x": 1.0}})
			}
			fmt.Fprintf(&b, "\tO%d=churned", k)
		}
	}
	// earlier results belong to the caller: they must still read the same
	var stale []string
	for _, kp := range keep {
		parts := make([]string, len(kp.res))
		for i := range kp.res {
			parts[i] = render(kp.res[i])
		}
		if now := "ok:[" + strings.Join(parts, ",") + "]"; now != kp.render {
			stale = append(stale, fmt.Sprintf("%d:%s", kp.op, now))
		}
		if kp.grown != nil {
			if v, ok := kp.grown[len(kp.res)].(string); !ok || v != sentinel {
				stale = append(stale, fmt.Sprintf("%d:appended-element-overwritten", kp.op))
			}
		}
	}
	if len(stale) > 0 {
		b.WriteString("\tSTALE=" + strings.Join(stale, ";"))
	}
	b.WriteString("\tG=" + jsonpath.VerifGlobals(render))
	return b.String()
}

// runConc runs the same operations sequentially and then from several goroutines at once
// (shared parsed functions, shared documents) and reports any difference. Built with -race
// the race detector aborts the worker on a data race, which the master reports as a crash.
func runConc(c *caseT) string {
	var b strings.Builder
	b.WriteString(c.ID)
	type shared struct {
		f   fn
		obs string
	}
	var fns []shared
	var docs []interface{}
	var parseOps []opT
	// the Config each path was parsed with is kept: the goroutines below hand the SAME Config (value copies of one
	// object, sharing its function tables) to concurrent Parse calls — a Config is only read by Parse
	var sharedCfgs []jsonpath.Config
	for _, op := range c.Ops {
		switch op.Op {
		case "parse":
			cfg := makeConfig(op.Filters, op.Aggs, op.Acc, nil)
			f, obs, _ := parseObs(unhex(op.Path), &cfg)
			fns = append(fns, shared{f, obs})
			parseOps = append(parseOps, op)
			sharedCfgs = append(sharedCfgs, cfg)
		case "doc":
			docs = append(docs, buildDoc(op.Doc))
		}
	}
	// sequential reference
	want := make([][]string, len(fns))
	for i, s := range fns {
		want[i] = make([]string, len(docs))
		for j, d := range docs {
			if s.f == nil {
				want[i][j] = s.obs
				continue
			}
			_, want[i][j] = evalObs(s.f, d)
		}
	}
	threads := c.Threads
	if threads < 2 {
		threads = 2
	}
	rounds := c.Rounds
	if rounds < 1 {
		rounds = 1
	}
	var wg sync.WaitGroup
	var mu sync.Mutex
	var diffs []string
	start := make(chan struct{})
	for t := 0; t < threads; t++ {
		wg.Add(1)
		go func(t int) {
			defer wg.Done()
			<-start
			for r := 0; r < rounds; r++ {
				for k := 0; k < len(fns)*len(docs); k++ {
					i := (k + t) % len(fns)
					j := (k/len(fns) + t + r) % len(docs)
					if (k+t+r)%3 == 0 {
						// interleave Parse calls of the same and of other paths
						op := parseOps[(i+r)%len(parseOps)]
						cfg := makeConfig(op.Filters, op.Aggs, op.Acc, nil)
						if (k+r)%2 == 0 {
							// every goroutine passes the Config object made before the goroutines started
							cfg = sharedCfgs[(i+r)%len(parseOps)]
						}
						_, obs, _ := parseObs(unhex(op.Path), &cfg)
						if obs != fns[(i+r)%len(parseOps)].obs {
							mu.Lock()
							diffs = append(diffs, fmt.Sprintf("parse%d:%s", (i+r)%len(parseOps), obs))
							mu.Unlock()
						}
					}
					if fns[i].f == nil {
						continue
					}
					_, got := evalObs(fns[i].f, docs[j])
					if got != want[i][j] {
						mu.Lock()
						diffs = append(diffs, fmt.Sprintf("f%d/d%d:%s", i, j, got))
						mu.Unlock()
					}
				}
			}
		}(t)
	}
	close(start)
	wg.Wait()
	if len(diffs) > 0 {
		if len(diffs) > 5 {
			diffs = diffs[:5]
		}
		b.WriteString("\tDIFF=" + strings.Join(diffs, ";"))
	} else {
		fmt.Fprintf(&b, "\tCONC=ok:%d", threads*rounds*len(fns)*len(docs))
	}
	return b.String()
}

// runParked: far more callers in flight at once than there are processors.  Every goroutine calls a shared parsed function
// whose user function `park` blocks until ALL the goroutines have arrived in it (or a time limit passes), so c.Threads
// retrievals are in progress inside the library at the same moment — each holding whatever the library hands out per call.
// The library sets no limit on concurrent callers: every call must return what the sequential call returns.
func runParked(c *caseT) string {
	n := c.Threads
	var parking, arrived int32
	release := make(chan struct{})
	var once sync.Once
	park := func(v interface{}) (interface{}, error) {
		if atomic.LoadInt32(&parking) == 1 {
			if atomic.AddInt32(&arrived, 1) >= int32(n) {
				once.Do(func() { close(release) })
			}
			select {
			case <-release:
			case <-time.After(8 * time.Second):
			}
		}
		return v, nil
	}
	type shared struct {
		f   fn
		obs string
	}
	var fns []shared
	var docs []interface{}
	for _, op := range c.Ops {
		switch op.Op {
		case "parse":
			cfg := makeConfig(op.Filters, op.Aggs, op.Acc, nil)
			cfg.SetFilterFunction("park", park)
			f, obs, _ := parseObs(unhex(op.Path), &cfg)
			fns = append(fns, shared{f, obs})
		case "doc":
			docs = append(docs, buildDoc(op.Doc))
		}
	}
	want := make([][]string, len(fns))
	for i, s := range fns {
		want[i] = make([]string, len(docs))
		for j, d := range docs {
			if s.f == nil {
				want[i][j] = s.obs
				continue
			}
			_, want[i][j] = evalObs(s.f, d)
		}
	}
	atomic.StoreInt32(&parking, 1)
	var mu sync.Mutex
	var diffs []string
	var finished int32
	done := make(chan struct{})
	var wg sync.WaitGroup
	for t := 0; t < n; t++ {
		wg.Add(1)
		go func(t int) {
			defer wg.Done()
			i, j := t%len(fns), (t/len(fns))%len(docs)
			if fns[i].f != nil {
				_, got := evalObs(fns[i].f, docs[j])
				if got != want[i][j] {
					mu.Lock()
					diffs = append(diffs, fmt.Sprintf("f%d/d%d:%s", i, j, got))
					mu.Unlock()
				}
			}
			atomic.AddInt32(&finished, 1)
		}(t)
	}
	go func() { wg.Wait(); close(done) }()
	select {
	case <-done:
	case <-time.After(40 * time.Second):
		return fmt.Sprintf("%s\tPARKED=stuck:%d-of-%d-returned", c.ID, atomic.LoadInt32(&finished), n)
	}
	atomic.StoreInt32(&parking, 0)
	if len(diffs) > 0 {
		if len(diffs) > 5 {
			diffs = diffs[:5]
		}
		return c.ID + "\tDIFF=" + strings.Join(diffs, ";")
	}
	return fmt.Sprintf("%s\tPARKED=ok:%d", c.ID, n)
}

// runCold starts a brand-new process whose very first library calls are made concurrently by several goroutines
// (no warm-up): lazy initialisation of package-level state must be race free too.  The child is this same binary
// (built with -race when the scenario runs under the race detector); a race report makes it exit non-zero.
func runCold(c *caseT) string {
	self, _ := os.Executable()
	cmd := exec.Command(self, "coldchild")
	raw, _ := json.Marshal(c)
	cmd.Stdin = strings.NewReader(string(raw) + "\n")
	out, err := cmd.CombinedOutput()
	text := strings.TrimSpace(string(out))
	if err != nil {
		if strings.Contains(text, "DATA RACE") {
			return c.ID + "\tCOLD=race"
		}
		return c.ID + "\tCOLD=died:" + hx(text[max(0, len(text)-300):])
	}
	lines := strings.Split(text, "\n")
	return c.ID + "\t" + lines[len(lines)-1]
}

// runColdHist runs a history in a brand-new process: its first operation is the first library call that
// process ever makes (no ambient history, nothing initialised lazily yet).
func runColdHist(c *caseT) string {
	self, _ := os.Executable()
	cmd := exec.Command(self, "coldhistchild")
	raw, _ := json.Marshal(c)
	cmd.Stdin = strings.NewReader(string(raw) + "\n")
	out, err := cmd.CombinedOutput()
	text := strings.TrimSpace(string(out))
	if err != nil {
		return c.ID + "\tCOLD=died:" + hx(text[max(0, len(text)-300):])
	}
	lines := strings.Split(text, "\n")
	return lines[len(lines)-1]
}

func coldHistChild() {
	in := bufio.NewReaderSize(os.Stdin, 1<<20)
	line, _ := in.ReadBytes('\n')
	var c caseT
	if err := json.Unmarshal(line, &c); err != nil {
		fmt.Println("?\tCOLD=badcase")
		os.Exit(3)
	}
	fmt.Println(runHist(&c))
}

func coldChild() {
	in := bufio.NewReaderSize(os.Stdin, 1<<20)
	line, _ := in.ReadBytes('\n')
	var c caseT
	if err := json.Unmarshal(line, &c); err != nil {
		fmt.Println("COLD=badcase")
		os.Exit(3)
	}
	threads := c.Threads
	if threads < 2 {
		threads = 4
	}
	var parses []opT
	var docs []docT
	for _, op := range c.Ops {
		if op.Op == "parse" {
			parses = append(parses, op)
		} else if op.Op == "doc" {
			docs = append(docs, op.Doc)
		}
	}
	type outT struct{ obs []string }
	outs := make([]outT, threads)
	start := make(chan struct{})
	var wg sync.WaitGroup
	for t := 0; t < threads; t++ {
		wg.Add(1)
		go func(t int) {
			defer wg.Done()
			<-start
			for k := range parses {
				op := parses[(k+t)%len(parses)]
				cfg := makeConfig(op.Filters, op.Aggs, op.Acc, nil)
				f, obs, _ := parseObs(unhex(op.Path), &cfg)
				o := fmt.Sprintf("%d:%s", (k+t)%len(parses), obs)
				if f != nil {
					for j := range docs {
						_, e := evalObs(f, buildDoc(docs[j]))
						o += "|" + e
					}
				}
				outs[t].obs = append(outs[t].obs, o)
			}
		}(t)
	}
	close(start)
	wg.Wait()
	// every goroutine must have observed the same outcome for the same (path, document)
	seen := map[string]string{}
	for t := range outs {
		for _, o := range outs[t].obs {
			key := o[:strings.Index(o, ":")]
			if prev, ok := seen[key]; ok && prev != o {
				fmt.Println("COLD=diff:" + hx(prev+" vs "+o))
				return
			}
			seen[key] = o
		}
	}
	fmt.Printf("COLD=ok:%d\n", threads*len(parses))
}

// runDeepDoc: a source value nested hundreds of thousands of levels deep, built in memory (no decoder would produce it), in a
// child process whose goroutine stacks are limited to 64 MB: a retrieval must not need stack in proportion to the nesting
// depth of the value it walks.  c.Threads is the depth; every path of the scenario must return exactly one value.
func runDeepDoc(c *caseT) string {
	self, _ := os.Executable()
	cmd := exec.Command(self, "deepchild")
	raw, _ := json.Marshal(c)
	cmd.Stdin = strings.NewReader(string(raw) + "\n")
	out, err := cmd.CombinedOutput()
	text := strings.TrimSpace(string(out))
	if err != nil {
		head := text
		if len(head) > 200 {
			head = head[:200]
		}
		return c.ID + "\tDEEP=died:" + hx(head)
	}
	lines := strings.Split(text, "\n")
	return c.ID + "\t" + lines[len(lines)-1]
}

func deepChild() {
	debug.SetMaxStack(64 << 20)
	in := bufio.NewReaderSize(os.Stdin, 1<<20)
	line, _ := in.ReadString('\n')
	var c caseT
	if err := json.Unmarshal([]byte(line), &c); err != nil {
		fmt.Println("DEEP=badcase")
		os.Exit(0)
	}
	var v interface{} = map[string]interface{}{"a": 1.0}
	for i := 0; i < c.Threads; i++ {
		if i%2 == 0 {
			v = []interface{}{v}
		} else {
			v = map[string]interface{}{"n": v}
		}
	}
	for _, op := range c.Ops {
		if op.Op != "parse" {
			continue
		}
		res, err := jsonpath.Retrieve(unhex(op.Path), v)
		if err != nil || len(res) != 1 {
			fmt.Printf("DEEP=bad:%s:%d:%v\n", op.Path, len(res), err != nil)
			os.Exit(0)
		}
	}
	fmt.Printf("DEEP=ok:%d\n", c.Threads)
	os.Exit(0)
}
