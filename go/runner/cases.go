package main

import (
	"encoding/json"
	"errors"
	"fmt"
	"hash/fnv"
	"math"
	"reflect"
	"strconv"
	"strings"
	"sync"

	"github.com/AsaiYusuke/jsonpath"
)

// ---------- the user-function library (mirrors coq/Model.v lib_ffun / lib_afun) ----------

type recorder struct {
	mu    sync.Mutex
	calls []string
	muted bool
}

func (r *recorder) add(s string) {
	r.mu.Lock()
	if !r.muted {
		r.calls = append(r.calls, s)
	}
	r.mu.Unlock()
}

// reenterHook, when set, is run by the library function "id" (once per outermost call): the history runner uses it
// to call the SAME parsed function on another document from inside a user function (re-entrancy on one goroutine).
var reenterHook func()
var reenterDepth int

func (r *recorder) take() string {
	r.mu.Lock()
	defer r.mu.Unlock()
	s := strings.Join(r.calls, ";")
	r.calls = nil
	return s
}

var errLib = errors.New("library function failed")

// error types whose failing values are zero values: a struct without fields, an empty string
type zeroErr struct{}

func (zeroErr) Error() string { return "zero-valued error" }

type issuesErr []string

func (e issuesErr) Error() string { return "issues: " + strings.Join(e, "; ") }

type zeroStrErr string

func (e zeroStrErr) Error() string { return "empty string error" }

func goTypeName(v interface{}) string {
	if v == nil {
		return "null"
	}
	return reflect.TypeOf(v).String()
}

func filterFunc(name string, rec *recorder) func(interface{}) (interface{}, error) {
	body := map[string]func(interface{}) (interface{}, error){
		"twice": func(v interface{}) (interface{}, error) {
			if f, ok := v.(float64); ok && !math.IsNaN(f) {
				return f * 2, nil
			}
			return nil, errLib
		},
		"wrap": func(v interface{}) (interface{}, error) { return []interface{}{v}, nil },
		"tn":   func(v interface{}) (interface{}, error) { return goTypeName(v), nil },
		"fail": func(v interface{}) (interface{}, error) { return nil, errLib },
		// fails with an error whose value is the zero value of its (non-pointer) type
		"zfail": func(v interface{}) (interface{}, error) { return nil, zeroErr{} },
		// fails with an error whose dynamic type cannot be compared with == (a slice type): errors are values to hand on, not to compare
		"ufail": func(v interface{}) (interface{}, error) { return nil, issuesErr{"first issue", "second issue"} },
		// a user function that panics on strings (the caller recovers, as the runner does) and hands everything else on
		"pstr": func(v interface{}) (interface{}, error) {
			if _, ok := v.(string); ok {
				panic("user filter function panicked on a string")
			}
			return v, nil
		},
		// a function whose result is a Go number that is not a float64 (kind int3): it replaces the value as it is
		"k3": func(v interface{}) (interface{}, error) { return int(3), nil },
		// a user function that itself uses the library and hands the error it got back unchanged
		"relay": func(v interface{}) (interface{}, error) {
			inner := jsonpath.Config{}
			inner.SetFilterFunction("fail", func(interface{}) (interface{}, error) { return nil, errLib })
			_, err := jsonpath.Retrieve("$.x.fail()", map[string]interface{}{"x": 1.0}, inner)
			return nil, err
		},
		"fstr": func(v interface{}) (interface{}, error) {
			if _, ok := v.(string); ok {
				return nil, errLib
			}
			return v, nil
		},
		"id": func(v interface{}) (interface{}, error) {
			if reenterHook != nil && reenterDepth == 0 {
				reenterDepth++
				reenterHook()
				reenterDepth--
			}
			return v, nil
		},
	}[name]
	if body == nil {
		// a name of the aggregate library registered as a filter function: always fails
		body = func(v interface{}) (interface{}, error) { return nil, errLib }
	}
	return func(v interface{}) (interface{}, error) {
		if rec != nil {
			rec.add("F(" + name + "," + render(v) + ")")
		}
		return body(v)
	}
}

func aggFunc(name string, rec *recorder) func([]interface{}) (interface{}, error) {
	body := map[string]func([]interface{}) (interface{}, error){
		"cnt": func(l []interface{}) (interface{}, error) { return float64(len(l)), nil },
		"first": func(l []interface{}) (interface{}, error) {
			if len(l) == 0 {
				return nil, errLib
			}
			return l[0], nil
		},
		// returns its argument itself: a library that hands out a buffer it will recycle is caught
		// when the result is read again later
		"arr":   func(l []interface{}) (interface{}, error) { return l, nil },
		"afail": func(l []interface{}) (interface{}, error) { return nil, errLib },
		"azfail": func(l []interface{}) (interface{}, error) { return nil, zeroStrErr("") },
		"c5":    func(l []interface{}) (interface{}, error) { return int64(5), nil },
		// a user function that panics: the caller (the runner) recovers; the library must be as good as new afterwards
		"apanic": func(l []interface{}) (interface{}, error) { panic("user aggregate function panicked") },
		"amax": func(l []interface{}) (interface{}, error) {
			found := false
			best := 0.0
			for _, v := range l {
				if f, ok := v.(float64); ok && !math.IsNaN(f) {
					if !found || best < f {
						best = f
					}
					found = true
				}
			}
			if !found {
				return nil, errLib
			}
			return best, nil
		},
	}[name]
	if body == nil {
		// a name of the filter library registered as an aggregate function: always fails
		body = func(l []interface{}) (interface{}, error) { return nil, errLib }
	}
	return func(l []interface{}) (interface{}, error) {
		if rec != nil {
			parts := make([]string, len(l))
			for i := range l {
				parts[i] = render(l[i])
			}
			rec.add("G(" + name + ",[" + strings.Join(parts, ",") + "])")
		}
		return body(l)
	}
}

// cfgOrder varies the order in which a Config is filled (the result must not depend on it, except that
// a name registered as both kinds resolves to the filter function): 0 = filters, aggregates, accessor;
// 1 = accessor first; 2 = accessor between the two kinds.  Set per case from a hash of its id.
var cfgOrder = 0

func makeConfig(filters, aggs []string, acc bool, rec *recorder) jsonpath.Config {
	cfg := jsonpath.Config{}
	setF := func() {
		for _, f := range filters {
			cfg.SetFilterFunction(f, filterFunc(f, rec))
		}
	}
	setA := func() {
		for _, a := range aggs {
			cfg.SetAggregateFunction(a, aggFunc(a, rec))
		}
	}
	setAcc := func() {
		if acc {
			cfg.SetAccessorMode()
		}
	}
	switch cfgOrder % 3 {
	case 1:
		setAcc()
		setF()
		setA()
	case 2:
		setF()
		setAcc()
		setA()
	default:
		setF()
		setA()
		setAcc()
	}
	return cfg
}

// ---------- observations ----------

// classify renders a library error from its fields (through the verif hook) and checks that
// Error() prints exactly the documented text for those fields.
func classify(err error) (obs string, extra string) {
	f := jsonpath.VerifErrorFields(err)
	msg := err.Error()
	if f == nil {
		return "undoc:" + hx(fmt.Sprintf("%T", err)) + ":" + hx(msg), ""
	}
	var want string
	switch f[0] {
	case "syn":
		reason := map[string]string{
			"unrecognized input": "unrecognized",
			"comparison between two current nodes is prohibited": "twocurrent",
			"JSONPath that returns a value group is prohibited":  "valuegroup",
		}[f[2]]
		if reason == "" {
			reason = "other:" + hx(f[2])
		}
		obs, extra = "syn:"+f[1]+":"+reason, hx(f[3])
		want = fmt.Sprintf("invalid syntax (position=%s, reason=%s, near=%s)", f[1], f[2], f[3])
	case "arg":
		obs, extra = "arg:"+hx(f[1]), hx(f[2])
		want = fmt.Sprintf("invalid argument (argument=%s, error=%s)", f[1], f[2])
	case "fnf":
		obs = "fnf:" + hx(f[1])
		want = fmt.Sprintf("function not found (function=%s)", f[1])
	case "nsp":
		obs = "nsp:" + hx(f[1]) + ":" + hx(f[2])
		want = fmt.Sprintf("not supported (feature=%s, path=%s)", f[1], f[2])
	case "mne":
		obs = "mne:" + hx(f[1])
		want = fmt.Sprintf("member did not exist (path=%s)", f[1])
	case "tum":
		obs = "tum:" + hx(f[1]) + ":" + f[2] + ":" + hx(f[3])
		want = fmt.Sprintf("type unmatched (expected=%s, found=%s, path=%s)", f[2], f[3], f[1])
	case "ff":
		obs = "ff:" + hx(f[1])
		want = fmt.Sprintf("function failed (function=%s, error=%s)", f[1], f[2])
	}
	if msg != want {
		obs += "!badtext:" + hx(msg)
	}
	return obs, extra
}

type fn = func(interface{}) ([]interface{}, error)

// parseObs calls Parse and classifies the outcome. extra carries `near` for syntax errors.
// parseObs2 passes two Configs to Parse (only the first is documented to be used)
func parseObs2(path string, cfg, cfg2 *jsonpath.Config) (f fn, obs string, extra string) {
	defer func() {
		if r := recover(); r != nil {
			f = nil
			obs = "panic:" + hx(fmt.Sprint(r))
		}
	}()
	ff, err := jsonpath.Parse(path, *cfg, *cfg2)
	return finishParseObs(ff, err)
}

func parseObs(path string, cfg *jsonpath.Config) (f fn, obs string, extra string) {
	defer func() {
		if r := recover(); r != nil {
			f = nil
			obs = "panic:" + hx(fmt.Sprint(r))
		}
	}()
	var err error
	var ff fn
	if cfg == nil {
		ff, err = jsonpath.Parse(path)
	} else {
		ff, err = jsonpath.Parse(path, *cfg)
	}
	return finishParseObs(ff, err)
}

func finishParseObs(f fn, err error) (fn, string, string) {
	if err == nil {
		if f == nil {
			return nil, "nilnil", ""
		}
		return f, "ok", ""
	}
	if f != nil {
		return nil, "both:" + hx(err.Error()), ""
	}
	obs, extra := classify(err)
	switch err.(type) {
	case jsonpath.ErrorInvalidSyntax, jsonpath.ErrorInvalidArgument, jsonpath.ErrorFunctionNotFound, jsonpath.ErrorNotSupported:
		return nil, obs, extra
	}
	return nil, "undoc:" + hx(fmt.Sprintf("%T", err)) + ":" + hx(err.Error()), ""
}

func evalObs(f fn, doc interface{}) (results []interface{}, obs string) {
	defer func() {
		if r := recover(); r != nil {
			results = nil
			obs = "panic:" + hx(fmt.Sprint(r))
		}
	}()
	res, err := f(doc)
	if err == nil {
		if res == nil {
			return nil, "nilnil"
		}
		if len(res) == 0 {
			return res, "emptyok"
		}
		parts := make([]string, len(res))
		for i := range res {
			parts[i] = render(res[i])
		}
		return res, "ok:[" + strings.Join(parts, ",") + "]"
	}
	if res != nil {
		return nil, "both:" + hx(err.Error())
	}
	o, _ := classify(err)
	switch err.(type) {
	case jsonpath.ErrorMemberNotExist, jsonpath.ErrorTypeUnmatched, jsonpath.ErrorFunctionFailed:
		return nil, o
	}
	return nil, "undoc:" + hx(fmt.Sprintf("%T", err)) + ":" + hx(err.Error())
}

// ---------- locations: which place of the document does accessor i write? ----------

type sentinelT struct{ n int }

func findSentinel(v interface{}, s interface{}, path string, out *[]string) {
	if v == s {
		*out = append(*out, path)
		return
	}
	switch t := v.(type) {
	case []interface{}:
		for i := range t {
			findSentinel(t[i], s, path+"/i"+strconv.Itoa(i), out)
		}
	case map[string]interface{}:
		for k := range t {
			findSentinel(t[k], s, path+"/k"+hx(k), out)
		}
	}
}

// replaceSentinel returns the rendering of the document with the sentinel put back to `orig`.
func renderWithout(v interface{}, s interface{}, orig string) string {
	r := render(v)
	return strings.Replace(r, render(s), orig, 1)
}

// setAt replaces, directly in the document (not through an accessor), the value at a location found by findSentinel.
func setAt(doc interface{}, loc string, v interface{}) bool {
	parts := strings.Split(strings.TrimPrefix(loc, "/"), "/")
	cur := doc
	for i, p := range parts {
		last := i == len(parts)-1
		switch {
		case strings.HasPrefix(p, "i"):
			idx, _ := strconv.Atoi(p[1:])
			arr, ok := cur.([]interface{})
			if !ok || idx < 0 || idx >= len(arr) {
				return false
			}
			if last {
				arr[idx] = v
				return true
			}
			cur = arr[idx]
		case strings.HasPrefix(p, "k"):
			key := unhex(p[1:])
			m, ok := cur.(map[string]interface{})
			if !ok {
				return false
			}
			if last {
				m[key] = v
				return true
			}
			cur = m[key]
		default:
			return false
		}
	}
	return false
}

func locations(c *caseT, docIdx int, n int, rec *recorder) string {
	out := make([]string, n)
	for i := 0; i < n; i++ {
		doc := buildDoc(c.Docs[docIdx])
		before := render(doc)
		cfg := makeConfig(c.Filters, c.Aggs, true, nil)
		f, obs, _ := parseObs(unhex(c.Path), &cfg)
		if obs != "ok" {
			return "reparse-failed"
		}
		res, _ := evalObs(f, doc)
		if len(res) != n {
			return "unstable-result-count"
		}
		// the accessors belong to the caller: a later call of the same parsed function on another document (and an
		// unrelated retrieval) must not retarget them
		evalObs(f, buildDoc(c.Docs[docIdx]))
		jsonpath.Retrieve("$..*", []interface{}{map[string]interface{}{"x": []interface{}{"p", "q"}}, "y"})
		acc, ok := res[i].(jsonpath.Accessor)
		if !ok {
			out[i] = "v"
			continue
		}
		if acc.Set == nil {
			out[i] = "nil"
			continue
		}
		old := acc.Get()
		sent := &sentinelT{i}
		acc.Set(sent)
		var found []string
		findSentinel(doc, sent, "", &found)
		got := acc.Get()
		switch {
		case len(found) == 0:
			out[i] = "detached"
		case len(found) > 1:
			out[i] = "multi:" + strings.Join(found, "+")
		default:
			loc := found[0]
			if loc == "" {
				loc = "/"
			}
			// everything else must be unchanged, and Get must be live
			after := strings.Replace(render(doc), render(sent), render(old), 1)
			if after != before {
				loc += "!othersChanged"
			}
			if got != interface{}(sent) {
				loc += "!getNotLive"
			}
			// Get reflects a later in-place update of that map entry / array element made directly by the caller,
			// whatever kind of value sits there (a container as well as a leaf)
			for _, direct := range []interface{}{&sentinelT{1000 + i}, map[string]interface{}{"direct": 1.0}, []interface{}{"direct"}} {
				if found[0] != "" && setAt(doc, found[0], direct) {
					if g := acc.Get(); render(g) != render(direct) {
						loc += "!getStaleAfterDirectUpdate"
						break
					}
				}
			}
			// Set stores whatever value it is given at that location — nil, a scalar, a container — and nothing else changes
			for _, v := range []interface{}{nil, true, map[string]interface{}{"s": 1.0}, map[string]interface{}{"t": 2.0}, []interface{}{"s"}, []interface{}{"t", "u"}, "", 2.5, 7, json.Number("2.5"), 2.5,
				[]interface{}(nil), map[string]interface{}(nil), []interface{}{}, map[string]interface{}{}, 2.5} {
				if found[0] == "" {
					break
				}
				acc.Set(v)
				want := buildDoc(c.Docs[docIdx])
				if !setAt(want, found[0], v) || render(doc) != render(want) {
					loc += "!setValueKind"
					break
				}
				// the location holds the very value given (a typed nil container stays a typed nil container)
				if g := acc.Get(); !reflect.DeepEqual(g, v) {
					loc += "!setValueNotStored"
					break
				}
			}
			// a value of the library's own Accessor type is a value like any other: it is stored as it is
			if found[0] != "" {
				src := jsonpath.Accessor{Get: func() interface{} { return 30.0 }}
				acc.Set(src)
				if g, ok := acc.Get().(jsonpath.Accessor); !ok || g.Get == nil || g.Get() != 30.0 {
					loc += "!setAccessorValue"
				}
			}
			// the location holds the very object given — not a copy of its members — and an object stored there before is
			// left alone; storing the object that is already there (read, modify, write back) keeps it
			if found[0] != "" {
				m1 := map[string]interface{}{"one": 1.0}
				m2 := map[string]interface{}{"two": 2.0}
				acc.Set(m1)
				acc.Set(m2)
				m2["later"] = 3.0
				if render(acc.Get()) != render(m2) || len(m1) != 1 || m1["one"] != 1.0 {
					loc += "!setObjectNotByIdentity"
				}
				if cur, ok := acc.Get().(map[string]interface{}); ok {
					cur["rmw"] = 4.0
					acc.Set(cur)
					if g, ok := acc.Get().(map[string]interface{}); !ok || len(g) != 3 || len(cur) != 3 {
						loc += "!setSameObjectLost"
					}
				}
				w := map[string]interface{}{"wrapped": acc.Get()}
				acc.Set(w)
				if g, ok := acc.Get().(map[string]interface{}); !ok || reflect.ValueOf(g).Pointer() != reflect.ValueOf(w).Pointer() || len(w) != 1 {
					loc += "!setWrappedObject"
					// the document may have become cyclic: undo that before anything walks it
					if ok {
						delete(g, "wrapped")
					}
					delete(w, "wrapped")
				}
			}
			out[i] = loc
		}
	}
	return strings.Join(out, ",")
}

// ---------- ambient history ----------

// Every property is stated for any history of earlier calls.  Before each case the worker therefore makes a few
// unrelated calls that must not matter: Parse calls failing at different actions (also while a filter operand is half
// built), a Parse with a configuration, a retrieval that recycles the pooled buffers.  On a correct library this
// changes no observation; a leak of parser state, configuration or buffers shows up in whatever case comes next.
var ambientCounter int

var ambientFailing = []string{
	"$.old[?(@.id.nosuchfn())]", "$.x[?(@.a == 1 && @.b[99999999999999999999])]", "$.p.q[(1+1)]", "$[?(@.a =~ /(/)]",
	"$.r[?(@.* == 1)]", "$.s[?(@.a == @.b)]", "$.t]", "$.u[?(@.a == 1e)]", "$['\\x']", "$.v[?(@.a.twice() == 2 && @.b.nosuch())]",
}

func ambientHistory() {
	ambientCounter++
	k := ambientCounter
	func() {
		defer func() { recover() }()
		jsonpath.Parse(ambientFailing[k%len(ambientFailing)])
		if k%3 == 0 {
			cfg := makeConfig([]string{"twice", "id"}, []string{"cnt", "amax"}, k%2 == 0, nil)
			jsonpath.Parse("$.a.twice()", cfg)
		}
		if k%4 == 0 {
			jsonpath.Retrieve("$..*", []interface{}{map[string]interface{}{"x": []interface{}{"p", "q", "r"}}, "y", 9.0})
		}
		if k%5 == 0 {
			jsonpath.Retrieve("$[?(@.s == 'a\\tb')]", []interface{}{map[string]interface{}{"s": "atb"}})
		}
		if k%2 == 1 {
			// a rejected path in accessor mode with functions: nothing of it may reach the next call
			cfg := makeConfig([]string{"twice"}, []string{"cnt"}, true, nil)
			jsonpath.Parse(ambientFailing[(k/2)%len(ambientFailing)], cfg)
		}
	}()
}

// ---------- one case ----------

func runCase(c *caseT) string {
	h := fnv.New32a()
	h.Write([]byte(c.ID))
	cfgOrder = int(h.Sum32() % 3)
	switch c.Mode {
	case "hist":
		return runHist(c)
	case "conc":
		return runConc(c)
	case "parked":
		return runParked(c)
	case "cold":
		return runCold(c)
	case "deepdoc":
		return runDeepDoc(c)
	case "coldhist":
		return runColdHist(c)
	}
	var b strings.Builder
	b.WriteString(c.ID)
	rec := &recorder{}
	var cfgp *jsonpath.Config
	if !c.NoCfg {
		cfg := makeConfig(c.Filters, c.Aggs, c.Acc, rec)
		cfgp = &cfg
	}
	path := unhex(c.Path)
	if c.Pre != "" {
		func() {
			defer func() { recover() }()
			jsonpath.Parse(unhex(c.Pre))
		}()
	}
	f, obs, extra := parseObs(path, cfgp)
	b.WriteString("\tP=" + obs)
	if extra != "" {
		b.WriteString("\tX=" + extra)
	}
	if c.Mode == "tree" && obs == "ok" {
		b.WriteString("\tT=" + dumpTree(path, cfgp))
	}
	if f == nil {
		return b.String()
	}
	docs := make([]interface{}, len(c.Docs))
	befores := make([]string, len(c.Docs))
	reported := make([]bool, len(c.Docs))
	results := make([][]interface{}, len(c.Docs))
	resultObs := make([]string, len(c.Docs))
	for i := range c.Docs {
		var doc interface{}
		if c.Alias {
			doc = buildDocAliased(c.Docs[i])
		} else {
			doc = buildDoc(c.Docs[i])
		}
		if c.Packed > 0 {
			doc = packDoc(doc, c.Packed+i)
		}
		before := render(doc)
		docs[i], befores[i] = doc, before
		rec.take()
		res, eobs := evalObs(f, doc)
		results[i], resultObs[i] = res, eobs
		fmt.Fprintf(&b, "\tR%d=%s", i, eobs)
		fmt.Fprintf(&b, "\tC%d=%s", i, rec.take())
		after := render(doc)
		if after != before {
			fmt.Fprintf(&b, "\tM%d=%s", i, after)
			reported[i] = true
		}
		if c.Acc && c.Mode == "loc" && res != nil {
			fmt.Fprintf(&b, "\tL%d=%s", i, locations(c, i, len(res), rec))
		}
	}
	// the documents must still be what they were after later calls and after unrelated retrievals that
	// recycle the pooled buffers (a result buffer aliasing a caller's array would show here)
	if len(docs) > 0 && c.Mode == "eval" {
		jsonpath.Retrieve("$..*", []interface{}{map[string]interface{}{"x": []interface{}{"p", "q", "r"}}, "y", 9.0})
		jsonpath.Retrieve("$.name", map[string]interface{}{"name": "n"})
		for i := range docs {
			if !reported[i] {
				if late := render(docs[i]); late != befores[i] {
					fmt.Fprintf(&b, "\tM%d=late:%s", i, late)
				}
			}
			// result slices (and whatever user functions handed back) belong to the caller: they must read the same
			if results[i] != nil && !c.Acc {
				parts := make([]string, len(results[i]))
				for k := range results[i] {
					parts[k] = render(results[i][k])
				}
				if now := "ok:[" + strings.Join(parts, ",") + "]"; now != resultObs[i] {
					fmt.Fprintf(&b, "\tSTALE%d=%s", i, now)
				}
			}
		}
	}
	return b.String()
}
