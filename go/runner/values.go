package main

import (
	"encoding/json"
	"fmt"
	"math"
	"math/big"
	"reflect"
	"sort"
	"strings"
	"time"

	"github.com/AsaiYusuke/jsonpath"
)

// ---------- non-JSON Go values the harness can plant in a document ----------

type myStruct struct{ A int }
type myPtrStruct struct{ B int }

// a comparable struct type whose field holds an uncomparable dynamic value: == on two of them panics
type myIfaceStruct struct{ V interface{} }
type myFuncStruct struct{ F func() }
type mySlice []interface{}
type myMap map[string]interface{}
type myString string

// a fixed-point amount: a foreign Go type that happens to have json.Number's conversion method
type myFixed struct{ Cents int64 }

func (a myFixed) Float64() (float64, error) { return float64(a.Cents) / 100, nil }

var ptrFixed = &myFixed{Cents: 250}

var (
	intThree   = 3
	intFour    = 4
	theChan    = make(chan int)
	theFunc    = func() {}
	theTime    = time.Unix(0, 0).UTC()
	theErr     = fmt.Errorf("boom")
	ptrStruct  = &myStruct{A: 7}
	nilIntPtr  *int
	nilMap     map[string]interface{}
	nilSlice   []interface{}
	theIntMap  = map[string]int{"a": 1}
	theIntList = []int{1, 2}
	// typed slices whose elements would be JSON values one by one: still foreign as a whole
	theMapSlice = []map[string]interface{}{{"id": 1.0, "name": "x"}, {"id": 2.0}}
	theStrSlice = []string{"p", "q"}
	// pointers to ordinary JSON documents: still not JSON values themselves
	ifaceDoc interface{} = map[string]interface{}{"a": 1.0, "b": []interface{}{1.0, 2.0}}
	ptrIface             = &ifaceDoc
	mapDoc               = map[string]interface{}{"a": 1.0}
	ptrMap               = &mapDoc
	sliceDoc             = []interface{}{1.0, "x"}
	ptrSlice             = &sliceDoc
)

// foreign types that can print themselves: a value is not a string because its type has a String() method
type myLabel struct{ N int }

func (l myLabel) String() string { return "7 z" }

type kindT struct {
	name string
	make func() interface{}
}

// Every kind is a distinct (type, value) so that it can be recognised when it comes back.
var kinds = []kindT{
	{"int3", func() interface{} { return int(3) }},
	{"int4", func() interface{} { return int(4) }},
	{"int64", func() interface{} { return int64(5) }},
	{"uint8", func() interface{} { return uint8(6) }},
	{"float32", func() interface{} { return float32(1.5) }},
	{"nan", func() interface{} { return math.NaN() }},
	{"complex", func() interface{} { return complex(1, 2) }},
	{"emptystruct", func() interface{} { return struct{}{} }},
	{"struct", func() interface{} { return myStruct{A: 1} }},
	{"funcstruct", func() interface{} { return myFuncStruct{F: theFunc} }},
	{"ptrstruct", func() interface{} { return ptrStruct }},
	{"ptrint", func() interface{} { return &intThree }},
	{"nilptr", func() interface{} { return nilIntPtr }},
	{"func", func() interface{} { return theFunc }},
	{"chan", func() interface{} { return theChan }},
	{"array", func() interface{} { return [2]int{1, 2} }},
	{"intmap", func() interface{} { return theIntMap }},
	{"intslice", func() interface{} { return theIntList }},
	{"namedslice", func() interface{} { return mySlice{1.0} }},
	{"namedmap", func() interface{} { return myMap{"a": 1.0} }},
	{"namedstring", func() interface{} { return myString("s") }},
	{"time", func() interface{} { return theTime }},
	{"error", func() interface{} { return theErr }},
	{"accessor", func() interface{} { return jsonpath.Accessor{} }},
	{"bytes", func() interface{} { return []byte("ab") }},
	{"rune", func() interface{} { return 'x' }},
	{"fixed", func() interface{} { return myFixed{Cents: 150} }},
	{"ptrfixed", func() interface{} { return ptrFixed }},
	// a fresh pointer on every use: two occurrences are deeply equal but not identical
	{"freshptr", func() interface{} { return &myPtrStruct{B: 9} }},
	{"ifacestruct", func() interface{} { return myIfaceStruct{V: []int{1, 2}} }},
	// undecoded JSON kept as bytes: a typed byte slice like any other, whatever the bytes spell
	{"rawjson", func() interface{} { return json.RawMessage(`{"a":{"b":1},"b":[1,2],"id":7}`) }},
	// … and bytes that are NOT well-formed JSON
	{"badraw", func() interface{} { return json.RawMessage(`{"a":`) }},
	{"mapslice", func() interface{} { return theMapSlice }},
	{"strslice", func() interface{} { return theStrSlice }},
	{"ptriface", func() interface{} { return ptrIface }},
	{"ptrmap", func() interface{} { return ptrMap }},
	{"ptrslice", func() interface{} { return ptrSlice }},
	// empty and nil containers of typed Go slice / map types: of the same reflect kind as JSON's, equal to nothing but themselves
	{"emptyintslice", func() interface{} { return []int{} }},
	{"nilintslice", func() interface{} { return []int(nil) }},
	{"emptystrslice", func() interface{} { return []string{} }},
	{"emptyintmap", func() interface{} { return map[string]int{} }},
	{"nilintmap", func() interface{} { return map[string]int(nil) }},
	{"duration", func() interface{} { return 2 * time.Second }},
	{"stringer", func() interface{} { return myLabel{N: 7} }},
	// an unnamed struct type: its name is its whole declaration, field tags (and whatever characters they hold) included
	{"tagstruct", func() interface{} {
		return struct {
			Share float64 `json:"share" unit:"%"`
		}{Share: 1}
	}},
}

func kindIndex(name string) int {
	for i, k := range kinds {
		if k.name == name {
			return i
		}
	}
	panic("unknown kind " + name)
}

func printKinds() {
	for i, k := range kinds {
		v := k.make()
		fmt.Printf("%s\t%d\t%s\t%v\n", k.name, i+1, hx(reflect.TypeOf(v).String()), reflect.DeepEqual(v, v))
	}
}

// opaqueID recognises a planted value; id 0 = not one of ours.
func opaqueID(v interface{}) int {
	if v == nil {
		return 0
	}
	t := reflect.TypeOf(v)
	if _, ok := v.(myIfaceStruct); ok {
		return kindIndex("ifacestruct") + 1
	}
	for i, k := range kinds {
		w := k.make()
		if reflect.TypeOf(w) != t {
			continue
		}
		switch t.Kind() {
		case reflect.Func, reflect.Chan, reflect.Ptr, reflect.Map, reflect.Slice:
			if t.Kind() == reflect.Slice || t.Kind() == reflect.Map {
				// one kind per such type, length and nil-ness
				if reflect.ValueOf(w).Len() == reflect.ValueOf(v).Len() && reflect.ValueOf(w).IsNil() == reflect.ValueOf(v).IsNil() {
					return i + 1
				}
				continue
			}
			if t.Kind() == reflect.Func {
				// one kind per such type
				return i + 1
			}
			if reflect.ValueOf(w).Pointer() == reflect.ValueOf(v).Pointer() {
				return i + 1
			}
			if _, ok := v.(*myPtrStruct); ok {
				return i + 1
			}
		default:
			if f, ok := v.(float64); ok && math.IsNaN(f) {
				if g, ok := w.(float64); ok && math.IsNaN(g) {
					return i + 1
				}
				continue
			}
			if t.Comparable() {
				if w == v {
					return i + 1
				}
			} else {
				return i + 1
			}
		}
	}
	return 0
}

// ---------- documents from descriptors ----------

func buildDoc(raw json.RawMessage) interface{} {
	var x interface{}
	dec := json.NewDecoder(strings.NewReader(string(raw)))
	dec.UseNumber()
	if err := dec.Decode(&x); err != nil {
		panic("bad doc descriptor: " + err.Error())
	}
	return build(x)
}

// buildDocAliased builds the document so that containers with identical descriptors are ONE shared Go object
// (a document assembled in Go code may reference the same map or slice from several parents).
func buildDocAliased(raw json.RawMessage) interface{} {
	var x interface{}
	dec := json.NewDecoder(strings.NewReader(string(raw)))
	dec.UseNumber()
	if err := dec.Decode(&x); err != nil {
		panic("bad doc descriptor: " + err.Error())
	}
	memo := map[string]interface{}{}
	var rec func(x interface{}) interface{}
	rec = func(x interface{}) interface{} {
		if m, ok := x.(map[string]interface{}); ok {
			_, isA := m["a"]
			_, isO := m["o"]
			if isA || isO {
				key, _ := json.Marshal(x)
				if v, ok := memo[string(key)]; ok {
					return v
				}
				var out interface{}
				if isA {
					arr := m["a"].([]interface{})
					o := make([]interface{}, len(arr))
					for i := range arr {
						o[i] = rec(arr[i])
					}
					out = o
				} else {
					arr := m["o"].([]interface{})
					o := make(map[string]interface{}, len(arr))
					for _, kv := range arr {
						p := kv.([]interface{})
						o[unhex(p[0].(string))] = rec(p[1])
					}
					out = o
				}
				memo[string(key)] = out
				return out
			}
		}
		return build(x)
	}
	return rec(x)
}

func build(x interface{}) interface{} {
	switch v := x.(type) {
	case nil:
		return nil
	case bool:
		return v
	case map[string]interface{}:
		if n, ok := v["n"]; ok {
			if s, ok := n.(string); ok {
				switch s {
				case "pinf":
					return math.Inf(1)
				case "ninf":
					return math.Inf(-1)
				}
				panic("bad n")
			}
			arr := n.([]interface{})
			m, _ := new(big.Int).SetString(arr[0].(string), 10)
			e, _ := arr[1].(json.Number).Int64()
			f := new(big.Float).SetInt(m)
			f.SetMantExp(f, int(e))
			r, _ := f.Float64()
			return r
		}
		if j, ok := v["j"]; ok {
			return json.Number(j.(string))
		}
		if s, ok := v["s"]; ok {
			return unhex(s.(string))
		}
		if a, ok := v["a"]; ok {
			arr := a.([]interface{})
			out := make([]interface{}, len(arr))
			for i := range arr {
				out[i] = build(arr[i])
			}
			return out
		}
		if o, ok := v["o"]; ok {
			arr := o.([]interface{})
			out := make(map[string]interface{}, len(arr))
			for _, kv := range arr {
				p := kv.([]interface{})
				out[unhex(p[0].(string))] = build(p[1])
			}
			return out
		}
		if k, ok := v["x"]; ok {
			return kinds[kindIndex(k.(string))].make()
		}
	}
	panic(fmt.Sprintf("bad doc descriptor node %T", x))
}

// ---------- canonical rendering (must agree with ocaml/driver.ml) ----------

func renderNum(f float64) string {
	switch {
	case math.IsNaN(f):
		return "n(nan)"
	case math.IsInf(f, 1):
		return "n(pinf)"
	case math.IsInf(f, -1):
		return "n(ninf)"
	case f == 0:
		return "n(0,0)"
	}
	frac, exp := math.Frexp(f)
	m := int64(frac * (1 << 53))
	e := exp - 53
	for m%2 == 0 {
		m /= 2
		e++
	}
	return fmt.Sprintf("n(%d,%d)", m, e)
}

func render(v interface{}) string {
	var b strings.Builder
	renderTo(&b, v)
	return b.String()
}

func renderTo(b *strings.Builder, v interface{}) {
	switch t := v.(type) {
	case nil:
		b.WriteString("z")
	case bool:
		if t {
			b.WriteString("t")
		} else {
			b.WriteString("f")
		}
	case float64:
		if math.IsNaN(t) {
			fmt.Fprintf(b, "x(%s,%d)", hx("float64"), kindIndex("nan")+1)
		} else {
			b.WriteString(renderNum(t))
		}
	case json.Number:
		fmt.Fprintf(b, "j(%s)", hx(string(t)))
	case string:
		fmt.Fprintf(b, "s(%s)", hx(t))
	case []interface{}:
		if t == nil {
			b.WriteString("u(nilslice)")
			return
		}
		b.WriteString("[")
		for i := range t {
			if i > 0 {
				b.WriteString(",")
			}
			renderTo(b, t[i])
		}
		b.WriteString("]")
	case map[string]interface{}:
		if t == nil {
			b.WriteString("u(nilmap)")
			return
		}
		keys := make([]string, 0, len(t))
		for k := range t {
			keys = append(keys, k)
		}
		sort.Strings(keys)
		b.WriteString("{")
		for i, k := range keys {
			if i > 0 {
				b.WriteString(",")
			}
			b.WriteString(hx(k))
			b.WriteString(":")
			renderTo(b, t[k])
		}
		b.WriteString("}")
	case jsonpath.Accessor:
		if t.Get == nil {
			fmt.Fprintf(b, "x(%s,%d)", hx("jsonpath.Accessor"), kindIndex("accessor")+1)
			return
		}
		set := 0
		if t.Set != nil {
			set = 1
		}
		fmt.Fprintf(b, "A(%d,", set)
		renderTo(b, t.Get())
		b.WriteString(")")
	default:
		if id := opaqueID(v); id != 0 {
			fmt.Fprintf(b, "x(%s,%d)", hx(reflect.TypeOf(v).String()), id)
		} else {
			fmt.Fprintf(b, "u(%s)", hx(fmt.Sprintf("%T", v)))
		}
	}
}

// packDoc rebuilds the arrays of a document as consecutive segments of ONE backing array (a document assembled in Go from
// sub-slices): every array keeps its elements and length, but its capacity reaches into the storage of the arrays laid out
// behind it, so an append to a slice that belongs to the document overwrites a neighbour.  The layout order is a
// permutation derived from seed.
func packDoc(doc interface{}, seed int) interface{} {
	type slot struct {
		set func([]interface{})
		arr []interface{}
	}
	var slots []slot
	var walk func(x interface{}, set func([]interface{}))
	walk = func(x interface{}, set func([]interface{})) {
		switch v := x.(type) {
		case []interface{}:
			slots = append(slots, slot{set, v})
			for i := range v {
				i := i
				walk(v[i], func(n []interface{}) { v[i] = n })
			}
		case map[string]interface{}:
			keys := make([]string, 0, len(v))
			for k := range v {
				keys = append(keys, k)
			}
			sort.Strings(keys)
			for _, k := range keys {
				k := k
				walk(v[k], func(n []interface{}) { v[k] = n })
			}
		}
	}
	var root interface{} = doc
	walk(doc, func(n []interface{}) { root = n })
	if len(slots) < 2 {
		return doc
	}
	total := 0
	for _, s := range slots {
		total += len(s.arr)
	}
	backing := make([]interface{}, total)
	// a permutation of the slots: rotate and, for odd seeds, reverse
	order := make([]int, len(slots))
	for i := range order {
		order[i] = (i + seed) % len(slots)
	}
	if seed%2 == 1 {
		for i, j := 0, len(order)-1; i < j; i, j = i+1, j-1 {
			order[i], order[j] = order[j], order[i]
		}
	}
	off := 0
	packed := make([][]interface{}, len(slots))
	for _, k := range order {
		n := len(slots[k].arr)
		seg := backing[off : off+n]
		copy(seg, slots[k].arr)
		packed[k] = seg
		off += n
	}
	// children first: an inner array must be replaced inside the packed copy of its parent
	for k := len(slots) - 1; k >= 0; k-- {
		slots[k].set(packed[k])
	}
	// the setters above wrote into the ORIGINAL parents; copy parents again so that the packed parents see the packed children
	for _, k := range order {
		copy(packed[k], slots[k].arr)
	}
	return root
}
