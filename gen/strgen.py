"""strgen.py — string generators for C02 / C17 / C19: grammar-derived paths, character-level
mutations of them and of the suite's own paths, token soup, arbitrary Unicode, invalid UTF-8,
and a bounded-exhaustive reduced grammar."""
import itertools
import os
import re

import gens

TOKENS = [b'$', b'@', b'.', b'..', b'*', b'[', b']', b'(', b')', b'?(', b'[?(', b')]', b"'a'", b'"b"', b'a', b'b', b'_x',
          b'0', b'1', b'-1', b'+2', b'007', b':', b'::', b',', b' ', b'==', b'!=', b'<', b'<=', b'>', b'>=', b'=~',
          b'/a/', b'/[/', b'&&', b'||', b'!', b'true', b'false', b'null', b'1.5', b'1e3', b'1e', b'-', b'+', b"'x'",
          b'"y"', b'.twice()', b'.cnt()', b'.nofn()', b'()', b'\\', b"\\'", b'9223372036854775807',
          b'9223372036854775808', b'-9223372036854775808', b'99999999999999999999', b'(1+1)', b'[(', b'(@.a)', b'[(@.length)]', b'[(@.length-1)]', b'(@.length)', b'[( @.length )]',
          b'[(@.length-)]', b'[(@)]', b'[()]', b'[(command)]', b'[(@.length+1)]', b'[(@.lengthy)]',
          b'\xe3\x81\x82', b'\xf0\x9f\x98\x80', b'\xc3\xa9', b'\t', b'\n', b'1e999', b'0x10', b'.5', b'1.', b'NULL', b'True']
MUT_CHARS = [b'$', b'@', b'.', b'*', b'[', b']', b'(', b')', b'?', b"'", b'"', b'\\', b':', b',', b' ', b'=', b'!', b'<',
             b'>', b'~', b'/', b'&', b'|', b'-', b'+', b'0', b'9', b'a', b'e', b'\xe3\x81\x82', b'\xf0\x9f\x98\x80',
             b'\xff', b'\x80', b'\x00', b'\x1f', b'\x7f', b'\xed\xa0\x80']

_SUITE = None


def suite_paths(repo):
    """the JSONPath strings of the repository's own test table, read at run time"""
    global _SUITE
    if _SUITE is None:
        out = set()
        try:
            text = open(os.path.join(repo, 'test_jsonpath_test.go'), encoding='utf-8', errors='replace').read()
            for m in re.finditer(r'jsonpath:\s*`([^`]*)`', text):
                out.add(m.group(1).encode('utf-8'))
            for m in re.finditer(r'jsonpath:\s*"((?:[^"\\]|\\.)*)"', text):
                try:
                    out.add(bytes(m.group(1), 'utf-8').decode('unicode_escape').encode('latin-1', 'ignore'))
                except Exception:
                    pass
        except OSError:
            pass
        _SUITE = sorted(out)
    return _SUITE


def mutate(r, s, n=None):
    s = bytearray(s)
    for _ in range(n or r.choice([1, 1, 1, 2, 3])):
        k = r.random()
        pos = r.randint(0, len(s))
        if k < 0.35 and s:
            pos = min(pos, len(s) - 1)
            del s[pos]
        elif k < 0.7:
            s[pos:pos] = r.choice(MUT_CHARS)
        elif k < 0.85 and s:
            pos = min(pos, len(s) - 1)
            s[pos:pos + 1] = r.choice(MUT_CHARS)
        elif s:
            a = r.randint(0, len(s) - 1)
            b = r.randint(a, min(len(s), a + 6))
            s[pos:pos] = s[a:b]
    return bytes(s[:256])


def soup(r):
    return b''.join(r.choice(TOKENS) for _ in range(r.randint(1, 12)))[:256]


def unicode_string(r):
    out = bytearray()
    for _ in range(r.randint(1, 10)):
        k = r.random()
        if k < 0.3:
            out += r.choice([b'$', b'.', b'[', b']', b"'", b'a', b'*'])
        elif k < 0.5:
            out += chr(r.randint(0x80, 0x7ff)).encode('utf-8')
        elif k < 0.7:
            cp = r.randint(0x800, 0xffff)
            if 0xd800 <= cp <= 0xdfff:
                cp = 0xfffd
            out += chr(cp).encode('utf-8')
        elif k < 0.85:
            out += chr(r.randint(0x10000, 0x10ffff)).encode('utf-8')
        else:
            out += bytes([r.randint(0x80, 0xff)])          # invalid UTF-8
    return bytes(out)


def grammar_path(g, funcs=0.3, spelled=0.4):
    r = g.r
    doc = g.filter_doc(False, 0) if r.random() < 0.5 else g.doc(3, False, 0)
    steps = g.gen_path(doc, 4, funcs)
    sp = gens.Spelling(r, 0.3) if r.random() < spelled else None
    return gens.render_path(steps, sp, dollar=r.random() < 0.85), steps


def strings(g, n, repo):
    """(text, kind) pairs"""
    r = g.r
    suite = suite_paths(repo)
    out = []
    for i in range(n):
        k = r.random()
        if k < 0.25:
            out.append((grammar_path(g)[0][:256], 'grammar'))
        elif k < 0.5:
            out.append((mutate(r, grammar_path(g)[0]), 'grammar-mutated'))
        elif k < 0.7 and suite:
            out.append((mutate(r, r.choice(suite)), 'suite-mutated'))
        elif k < 0.75 and suite:
            out.append((r.choice(suite)[:256], 'suite'))
        elif k < 0.9:
            out.append((soup(r), 'soup'))
        else:
            out.append((unicode_string(r), 'unicode'))
    return out


# ---------------------------------------------------------------- bounded-exhaustive reduced grammar
OPERANDS = [b'1', b"'a'", b'true', b'null', b'@', b'@.a', b'@[0]', b'$', b'$.a', b'$[0]', b'@.*', b'$..a', b'@.cnt()',
            b'@.a.twice()', b'@.cnt().cnt()', b'$.a.cnt()']
OPS = [b'==', b'!=', b'<', b'<=', b'>', b'>=']
REGEX_BODIES = [b'a', b'\\Qa.b', b'\\Q', b'a\\Qb(', b'\\Qx\\E', b'\\Q\\E', b'(', b')', b'(?i)a', b'(?x)', b'(?s).', b'(?U)a*', b'[', b'[a', b'a{2,1}', b'a{1001}',
                b'\\p{Greek}', b'\\pN', b'\\C', b'(?P<n>a)', b'(?<n>a)', b'\\z', b'\\1', b'a**', b'\\d+', b'[[:alpha:]]', b'\\x{10FFFF}', b'\\x{110000}', b'.', b'^$', b'a|', b'(?:)', b'^c:\\/tmp\\\\', b'\\/\\\\', b'a\\/', b'\\\\', b'\\\\\\/', b'a\\/b\\\\\\\\', b'\\/', b'ab(?', b'(?', b'x(?i)y(?<', b'(?<', b'(?=a)', b'a(?!b)', b'(?<=a)b']
STEPS = [b'.a', b"['a']", b'["a"]', b'.*', b'[*]', b"['a','b']", b'[*,*]', b'[0]', b'[-1]', b'[0,1]', b'[1:]', b'[::2]',
         b'[::-1]', b'[:0:0]', b'..a', b'..*', b'..[0]', b"..['a','b']", b'[?(@.a)]', b'[?(@.a==1)]', b'.twice()',
         b'.cnt()', b'[(1)]', b'..[?(@)]', b'[(@.length)]', b'[(@.length-1)]', b'..[(@.length)]', b'[(@)]']


def keyword_spellings():
    """every mixture of upper and lower case of true / false / null (the grammar admits three spellings of each)"""
    for w in ('true', 'false', 'null'):
        for mask in itertools.product((0, 1), repeat=len(w)):
            yield ''.join(ch.upper() if m else ch for ch, m in zip(w, mask)).encode()


NUMBER_SPELLINGS = [b'0x1p4', b'0X1.8P+1', b'-0x.8p3', b'0x1p-2', b'+0x10p0', b'0x10', b'0x', b'0x1', b'0xg', b'1_0', b'0b101', b'0o17', b'Inf', b'+Inf', b'NaN', b'.5', b'5.',
                   b'1e+2', b'1E5', b'+1', b'-0', b'01', b'0e0', b'1e', b'1e+', b'--1', b'1.2.3', b'1e400', b'-1e400', b'4e-400', b'0x1.fffffffffffffp1023', b'0x1p1024']


def exhaustive_comparisons():
    # literals in every spelling the number and keyword rules might or might not admit, on either side of a comparison
    for lit in itertools.chain(keyword_spellings(), NUMBER_SPELLINGS):
        yield b'$[?(@.a == ' + lit + b')]'
        yield b'$[?(' + lit + b' != @.a)]'
    for a, op, b in itertools.product(OPERANDS, OPS, OPERANDS):
        yield b'$[?(' + a + b' ' + op + b' ' + b + b')]'
    # what stands between the slashes goes to regexp.Compile as it is: accepted or rejected by Go's regexp, never anything else
    for body in REGEX_BODIES:
        yield b'$[?(@.a =~ /' + body + b'/)]'
        yield b'$[?(@ =~ /' + body + b'/ && @.b)]'
    for a in OPERANDS:
        yield b'$[?(' + a + b' =~ /a/)]'
        yield b'$[?(' + a + b')]'
        yield b'$[?(!' + a + b')]'
    for a, b in itertools.product(OPERANDS[:10], repeat=2):
        for lop in (b'&&', b'||'):
            yield b'$[?(' + a + b' ' + lop + b' ' + b + b' == 1)]'


def exhaustive_steps(maxlen=3):
    for n in range(1, maxlen + 1):
        for combo in itertools.product(STEPS, repeat=n):
            yield b'$' + b''.join(combo)
