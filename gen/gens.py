"""gens.py — seeded generators: documents, path ASTs (document-aware so that most paths hit),
and renderers of ASTs to path text under spelling parameters."""
import random

KEY_POOL = [b'a', b'b', b'c', b'd', b'aa', b'ab', b'B', b'_x', b'k1', b'z', b'a-b', b'\xc3\xa9', b'Z', b'10', b'9']
STR_POOL = [b'x', b'y', b'abc', b'', b'a b', b'X', b'10', b'ab', b'bc']
NUM_POOL = [0.0, 1.0, 2.0, 3.0, -1.0, 0.5, 1.5, 10.0, 100.0, -2.5, 1e300, 2.0 ** 53, 0.1, -0.0]
JNUM_POOL = ['0', '1', '2', '3', '-1', '0.5', '1.5', '10', '100', '-2.5', '1e2', '1.0', '2.50', '1E1', '0.1', '1e400', '-1e999', '-0', '-0.0', '0.0']
DEEP_ONLY_KINDS = ['intmap', 'intslice', 'namedslice', 'namedmap', 'bytes', 'freshptr', 'freshptr', 'ifacestruct', 'ifacestruct', 'emptyintslice', 'nilintslice', 'emptyintmap']
FILTER_FUNCS = ['twice', 'wrap', 'tn', 'fail', 'fstr', 'id', 'relay', 'k3', 'zfail', 'ufail']
PANIC_FUNCS = ['pstr']          # harness-only: panics on strings (never drawn at random; the model has no panics)
AGG_FUNCS = ['cnt', 'first', 'arr', 'afail', 'amax', 'c5', 'azfail']


class G:
    def __init__(self, seed):
        self.r = random.Random(seed)
        self.allow_root = True          # may filter operands be `$`-rooted?
        self.allow_agg = True           # may aggregate functions be generated?

    # ------------------------------------------------------------ documents
    def scalar(self, jnum=False, opaque=0.0):
        r = self.r
        if opaque and r.random() < opaque:
            from core import KINDS
            return ('x', r.choice(sorted(KINDS)))
        k = r.random()
        if k < 0.35:
            if jnum:
                return ('j', r.choice(JNUM_POOL))
            return ('n', r.choice(NUM_POOL))
        if k < 0.6:
            return ('s', r.choice(STR_POOL))
        if k < 0.75:
            return ('b', r.random() < 0.5)
        if k < 0.87:
            return ('z',)
        if k < 0.94:
            return ('a', [])
        return ('o', [])

    def doc(self, depth=3, jnum=False, opaque=0.0, maxw=5, keys=None):
        r = self.r
        keys = keys or KEY_POOL[:8]
        if depth <= 0 or r.random() < 0.25:
            return self.scalar(jnum, opaque)
        w = r.randint(0, maxw)
        if r.random() < 0.5:
            return ('a', [self.doc(depth - 1, jnum, opaque, maxw, keys) for _ in range(w)])
        ks = r.sample(keys, min(w, len(keys)))
        return ('o', [(k, self.doc(depth - 1, jnum, opaque, maxw, keys)) for k in ks])

    def similar_members(self, n, jnum=False, opaque=0.0):
        """a list of objects sharing keys, whose values hit / miss / mistype: good filter fodder"""
        r = self.r
        keys = r.sample(KEY_POOL[:6], r.randint(1, 3))
        out = []
        for _ in range(n):
            if r.random() < 0.15:
                out.append(self.scalar(jnum, opaque))
                continue
            m = []
            for k in keys:
                if r.random() < 0.75:
                    m.append((k, self.scalar(jnum, opaque) if r.random() < 0.8 else self.doc(1, jnum, opaque)))
            out.append(('o', m))
        return out

    def filter_doc(self, jnum=False, opaque=0.0):
        r = self.r
        n = r.randint(0, 6)
        members = self.similar_members(n, jnum, opaque)
        if r.random() < 0.5:
            body = ('a', members)
        else:
            ks = r.sample(KEY_POOL, len(members))
            body = ('o', list(zip(ks, members)))
        if r.random() < 0.5:
            return body
        # wrap with siblings usable by `$` operands
        top = [(b'list', body)]
        for k in r.sample(KEY_POOL[:6], r.randint(0, 3)):
            top.append((k, self.scalar(jnum, opaque)))
        r.shuffle(top)
        return ('o', top)

    # ------------------------------------------------------------ paths
    def pick_key(self, cur, hit=0.85):
        r = self.r
        if cur is not None and cur[0] == 'o' and cur[1] and r.random() < hit:
            return r.choice(cur[1])[0]
        return r.choice(KEY_POOL[:10])

    def children(self, cur):
        if cur is None:
            return []
        if cur[0] == 'a':
            return list(cur[1])
        if cur[0] == 'o':
            return [v for _, v in cur[1]]
        return []

    def lookup(self, cur, key):
        if cur is not None and cur[0] == 'o':
            for k, v in cur[1]:
                if k == key:
                    return v
        return None

    def gen_index(self, cur):
        r = self.r
        n = len(cur[1]) if cur is not None and cur[0] == 'a' else 3
        k = r.random()
        if k < 0.7 and n > 0:
            return r.randint(-n, n - 1)
        if k < 0.9:
            return r.randint(-8, 8)
        return r.choice([2 ** 31, -2 ** 31, 2 ** 63 - 1, -2 ** 63, 2 ** 31 - 1, n, -n - 1, n + 1])

    def gen_sub(self, cur):
        r = self.r
        k = r.random()
        if k < 0.5:
            return ('idx', self.gen_index(cur))
        if k < 0.9:
            def b():
                return None if r.random() < 0.35 else self.gen_index(cur)
            st = r.random()
            if st < 0.4:
                step = 'absent'
            elif st < 0.5:
                step = None
            else:
                step = r.choice([1, 2, -1, -2, 3, 0, -3, 2 ** 63 - 1, -2 ** 63]) if r.random() < 0.9 else self.gen_index(cur)
            return ('slice', b(), b(), step)
        return ('wild',)

    def gen_step(self, cur, depth, allow_filter=True, root=None, funcs=None):
        """returns (step, a representative child node reached, or None)"""
        r = self.r
        kids = self.children(cur)
        rep = r.choice(kids) if kids else None
        kinds = ['name', 'wild', 'multi', 'union', 'rec', 'filter']
        if cur is not None and r.random() < 0.9:
            if cur[0] == 'o':
                weights = [40, 10, 12, 1, 10, 18]
            elif cur[0] == 'a':
                weights = [1, 12, 1, 40, 10, 22]
            else:
                weights = [30, 10, 10, 18, 12, 12]
        else:
            weights = [30, 10, 10, 18, 12, 12]
        kind = r.choices(kinds, weights)[0]
        if kind == 'rec' and depth <= 0:
            kind = 'wild'
        if kind == 'filter' and not allow_filter:
            kind = 'name'
        if kind == 'name':
            key = self.pick_key(cur)
            return ('name', key, r.choice(['dot', 'sq', 'dq'])), self.lookup(cur, key)
        if kind == 'wild':
            return ('wild', r.choice(['dot', 'br'])), rep
        if kind == 'multi':
            if r.random() < 0.3 and cur is not None and cur[0] == 'o' and cur[1]:
                # more names than the object has members: all its keys in a shuffled (non-ascending) order, an absent name
                # in between and a repeated one — the results must come in the order written, duplicates kept
                keys = [k for k, _ in cur[1]]
                r.shuffle(keys)
                items = keys[:4] + [b'zz9'] + ([r.choice(keys)] if r.random() < 0.7 else [])
                r.shuffle(items)
                if r.random() < 0.5:
                    items = sorted(items, reverse=True)
                return ('multi', items), rep
            n = r.randint(2, 3)
            items = []
            for _ in range(n):
                # b'*' is the quoted NAME '*' (a member called *), not the wildcard
                items.append('*' if r.random() < 0.2 else (b'*' if r.random() < 0.08 else self.pick_key(cur)))
            return ('multi', items), rep
        if kind == 'union':
            n = r.choice([1, 1, 2, 3])
            subs = [self.gen_sub(cur) for _ in range(n)]
            return ('union', subs), rep
        if kind == 'rec':
            # the inner step is applied to every container below cur: aim at a grandchild
            target = rep if rep is not None and rep[0] in ('a', 'o') and r.random() < 0.6 else cur
            inner, rep2 = self.gen_step(target, 0, allow_filter, root, funcs)
            return ('rec', inner), rep2
        return ('filter', self.gen_fexpr(cur, root, 2, funcs)), rep

    def gen_steps(self, cur, n, allow_filter=True, root=None, funcs=None):
        steps = []
        for _ in range(n):
            st, cur = self.gen_step(cur, 1, allow_filter, root, funcs)
            steps.append(st)
        return steps, cur

    def gen_funcs(self, funcs, maxn=2):
        r = self.r
        out = []
        if funcs and r.random() < funcs:
            for _ in range(r.randint(1, maxn)):
                if r.random() < 0.5 or not self.allow_agg:
                    out.append(('ffun', r.choice(FILTER_FUNCS)))
                else:
                    out.append(('agg', r.choice(AGG_FUNCS)))
        return out

    def gen_literal(self, member=None):
        r = self.r
        # prefer a literal that equals some value found in the members
        if member is not None and r.random() < 0.6:
            vals = [v for v in self.children(member) if v[0] in ('n', 's', 'b', 'z', 'j')]
            if member[0] in ('n', 's', 'b', 'z', 'j'):
                vals.append(member)
            if vals:
                v = r.choice(vals)
                if v[0] == 'j':
                    x = float(v[1])
                    return ('n', x if abs(x) < 1e308 else 1.0)
                return v
        k = r.random()
        if k < 0.45:
            return ('n', r.choice(NUM_POOL[:10]))
        if k < 0.75:
            return ('s', r.choice(STR_POOL))
        if k < 0.9:
            return ('b', r.random() < 0.5)
        return ('z',)

    def gen_operand(self, cur, root, numeric=False, funcs=None):
        """cur: the container whose members the filter ranges over"""
        r = self.r
        kids = self.children(cur)
        member = r.choice(kids) if kids else None
        k = r.random()
        if k < 0.35:
            lit = self.gen_literal(member)
            if numeric and lit[0] != 'n':
                lit = ('n', r.choice(NUM_POOL[:10]))
            return ('lit', lit)
        if k < 0.8:
            n = r.choice([0, 1, 1, 1, 2])
            steps, _ = self.gen_single_steps(member, n)
            return ('cur', steps + self.gen_funcs(funcs, 1))
        if not self.allow_root:
            steps, _ = self.gen_single_steps(member, r.choice([0, 1, 1, 2]))
            return ('cur', steps + self.gen_funcs(funcs, 1))
        n = r.choice([1, 1, 2])
        steps, _ = self.gen_single_steps(root, n)
        return ('root', steps + self.gen_funcs(funcs, 1))

    def gen_single_steps(self, cur, n):
        """single-valued steps only (comparison operands must not be value groups)"""
        r = self.r
        steps = []
        for _ in range(n):
            if cur is not None and cur[0] == 'a' and r.random() < 0.8:
                i = self.gen_index(cur)
                steps.append(('union', [('idx', i)]))
                kids = cur[1]
                cur = kids[i] if -len(kids) <= i < len(kids) else None
            else:
                key = self.pick_key(cur)
                steps.append(('name', key, r.choice(['dot', 'sq', 'dq'])))
                cur = self.lookup(cur, key)
        return steps, cur

    def gen_fexpr(self, cur, root, depth, funcs=None):
        r = self.r
        k = r.random()
        if depth > 0 and k < 0.3:
            op = r.choice(['and', 'or'])
            return (op, self.gen_fexpr(cur, root, depth - 1, funcs), self.gen_fexpr(cur, root, depth - 1, funcs))
        if depth > 0 and k < 0.36:
            return ('paren', self.gen_fexpr(cur, root, depth - 1, funcs))
        kids = self.children(cur)
        member = r.choice(kids) if kids else None
        if k < 0.5:
            # existence (possibly a value group), maybe negated
            if r.random() < 0.75 or not self.allow_root:
                if r.random() < 0.7:
                    steps, _ = self.gen_single_steps(member, r.choice([0, 1, 1, 2]))
                else:
                    steps, _ = self.gen_steps(member, r.choice([1, 2]), depth > 0, root, None)
                p = ('cur', steps + self.gen_funcs(funcs, 1))
            else:
                if r.random() < 0.7:
                    steps, _ = self.gen_single_steps(root, r.choice([0, 1, 2]))
                else:
                    steps, _ = self.gen_steps(root, r.choice([1, 2]), False, root, None)
                p = ('root', steps + self.gen_funcs(funcs, 1))
            return ('not', p) if r.random() < 0.3 else ('exists', p)
        if k < 0.58:
            lhs = self.gen_operand(cur, root, funcs=funcs)
            while lhs[0] == 'lit':
                lhs = self.gen_operand(cur, root, funcs=funcs)
            return ('re', lhs, r.choice([b'^a', b'b$', b'^x$', b'a', b'.', b'^$', b'[0-9]+', b'a|y', b'B', b'\\/', b'^ab$', b'^a$', b'^bc$', b'^b$', b'^1$', b'^ab', b'bc$', b'\\Qa.b', b'\\Qa', b'(?i)AB', b'(?s)a.', b'\\Qb\\E$']))
        op = r.choice(['==', '==', '!=', '<', '<=', '>', '>='])
        numeric = op in ('<', '<=', '>', '>=')
        lhs = self.gen_operand(cur, root, numeric, funcs)
        rhs = self.gen_operand(cur, root, numeric, funcs)
        if lhs[0] == 'cur' and rhs[0] == 'cur' and r.random() < 0.9:
            rhs = ('lit', self.gen_literal(member))
            if numeric and rhs[1][0] != 'n':
                rhs = ('lit', ('n', 1.0))
        return ('cmp', op, lhs, rhs)

    def gen_path(self, doc, maxsteps=4, funcs=0.0, allow_filter=True):
        r = self.r
        n = r.randint(1, maxsteps)
        steps, _ = self.gen_steps(doc, n, allow_filter, doc, funcs if funcs else None)
        return steps + self.gen_funcs(funcs)


# ---------------------------------------------------------------- rendering
SYMS = set(b" !\"#$%&'()*+,./:;<=>?@[\\]^`{|}~")


def esc_dot(key):
    """dot-notation spelling of a key (None if the key cannot be spelled that way)"""
    if not key:
        return None
    out = bytearray()
    try:
        text = key.decode('utf-8')
    except UnicodeDecodeError:
        return None
    for ch in text:
        o = ord(ch)
        if o < 0x20 or o == 0x7F:
            return None
        if o < 0x80 and o in SYMS:
            out += b'\\' + bytes([o])
        else:
            out += ch.encode('utf-8')
    return bytes(out)


def esc_json(key, quote):
    """JSON-style escaping inside the given quote character (key must be valid UTF-8)"""
    out = bytearray()
    text = key.decode('utf-8')
    for ch in text:
        o = ord(ch)
        if ch == quote:
            out += b'\\' + ch.encode()
        elif ch == '\\':
            out += b'\\\\'
        elif o < 0x20:
            out += {8: b'\\b', 9: b'\\t', 10: b'\\n', 12: b'\\f', 13: b'\\r'}.get(o, ('\\u%04x' % o).encode())
        else:
            out += ch.encode('utf-8')
    return bytes(out)


def fmt_num_literal(x):
    if x == int(x) and abs(x) < 1e15:
        return str(int(x)).encode()
    return repr(x).encode()


def fmt_int(n, sp):
    s = str(abs(n))
    if sp and sp.r.random() < sp.p:
        s = '0' * sp.r.randint(1, 2) + s
    if n < 0:
        return ('-' + s).encode()
    if sp and sp.r.random() < sp.p:
        return ('+' + s).encode()
    return s.encode()


class Spelling:
    """spelling parameters: p = probability of using a non-canonical variant at each point"""

    def __init__(self, r=None, p=0.0):
        self.r = r or random.Random(0)
        self.p = p

    def sp(self):
        if self.p and self.r.random() < self.p:
            return b' ' * self.r.randint(1, 2)
        return b''

    def flip(self):
        return bool(self.p) and self.r.random() < self.p


def render_name_bracket(key, style, sp):
    q = "'" if style != 'dq' else '"'
    if sp.flip():
        q = '"' if q == "'" else "'"
    return q.encode() + esc_json(key, q) + q.encode()


def render_step(st, sp, first=False):
    t = st[0]
    if t == 'name':
        key, style = st[1], st[2]
        dot = esc_dot(key)
        use_dot = (style == 'dot') != sp.flip()
        if use_dot and dot is not None and not dot.endswith(b'()'):
            return b'.' + dot
        return b'[' + sp.sp() + render_name_bracket(key, style, sp) + sp.sp() + b']'
    if t == 'wild':
        use_dot = (st[1] == 'dot') != sp.flip()
        return b'.*' if use_dot else b'[' + sp.sp() + b'*' + sp.sp() + b']'
    if t == 'multi':
        items = []
        for it in st[1]:
            items.append(b'*' if it == '*' else render_name_bracket(it, 'sq', sp))
        return b'[' + sp.sp() + (sp.sp() + b',' + sp.sp()).join(items) + sp.sp() + b']'
    if t == 'union':
        return b'[' + sp.sp() + (sp.sp() + b',' + sp.sp()).join(render_sub(s, sp) for s in st[1]) + sp.sp() + b']'
    if t == 'rec':
        inner = render_step(st[1], sp)
        if inner.startswith(b'.'):
            inner = inner[1:]
        return b'..' + inner
    if t == 'filter':
        return b'[' + sp.sp() + b'?(' + sp.sp() + render_fexpr(st[1], sp) + sp.sp() + b')' + sp.sp() + b']'
    if t in ('ffun', 'agg'):
        return b'.' + st[1].encode() + b'()'
    raise ValueError(st)


def render_sub(s, sp):
    if s[0] == 'idx':
        return fmt_int(s[1], sp)
    if s[0] == 'wild':
        return b'*'
    _, a, b, c = s
    out = (fmt_int(a, sp) if a is not None else b'') + sp.sp() + b':' + sp.sp() + (fmt_int(b, sp) if b is not None else b'')
    if c != 'absent':
        out += sp.sp() + b':' + sp.sp() + (fmt_int(c, sp) if c is not None else b'')
    return out


def render_literal(v, sp):
    t = v[0]
    if t == 'n':
        return fmt_num_literal(v[1])
    if t == 'b':
        opts = [b'true', b'True', b'TRUE'] if v[1] else [b'false', b'False', b'FALSE']
        return sp.r.choice(opts) if sp.flip() else opts[0]
    if t == 'z':
        return sp.r.choice([b'null', b'Null', b'NULL']) if sp.flip() else b'null'
    if t == 's':
        q = b'"' if sp.flip() else b"'"
        body = v[1].replace(b'\\', b'\\\\').replace(q, b'\\' + q)
        return q + body + q
    raise ValueError(v)


def render_operand(o, sp):
    if o[0] == 'lit':
        return render_literal(o[1], sp)
    head = b'@' if o[0] == 'cur' else b'$'
    return head + b''.join(render_step(s, sp) for s in o[1])


def render_fexpr(e, sp):
    t = e[0]
    if t in ('and', 'or'):
        op = b'&&' if t == 'and' else b'||'
        left = render_fexpr(e[1], sp)
        right = render_fexpr(e[2], sp)
        # || binds weaker than &&: parenthesise an `or` under an `and`
        if t == 'and':
            if e[1][0] == 'or':
                left = b'(' + left + b')'
            if e[2][0] == 'or':
                right = b'(' + right + b')'
        # the grammar is right-recursive-free: a op b op c parses left to right; keep explicit
        # parentheses for a right operand of the same operator
        if e[2][0] == t:
            right = b'(' + right + b')'
        return left + (sp.sp() or b' ') + op + (sp.sp() or b' ') + right
    if t == 'paren':
        return b'(' + sp.sp() + render_fexpr(e[1], sp) + sp.sp() + b')'
    if t == 'exists':
        return render_operand(e[1], sp)
    if t == 'not':
        return b'!' + sp.sp() + render_operand(e[1], sp)
    if t == 'cmp':
        return render_operand(e[2], sp) + (sp.sp() or b' ') + e[1].encode() + (sp.sp() or b' ') + render_operand(e[3], sp)
    if t == 're':
        return render_operand(e[1], sp) + (sp.sp() or b' ') + b'=~' + (sp.sp() or b' ') + b'/' + e[2] + b'/'
    raise ValueError(e)


def render_path(steps, sp=None, dollar=True):
    sp = sp or Spelling()
    body = b''.join(render_step(s, sp) for s in steps)
    if not dollar and steps and steps[0][0] in ('name', 'wild', 'multi', 'union', 'filter') and not body.startswith(b'..'):
        if body.startswith(b'.'):
            return sp.sp() + body[1:] + sp.sp()
        return sp.sp() + body + sp.sp()
    return sp.sp() + b'$' + body + sp.sp()


def funcs_used(steps):
    """names of the library functions appearing anywhere in the AST"""
    f, a = set(), set()

    def walk_steps(ss):
        for s in ss:
            if s[0] == 'ffun':
                f.add(s[1])
            elif s[0] == 'agg':
                a.add(s[1])
            elif s[0] == 'rec':
                walk_steps([s[1]])
            elif s[0] == 'filter':
                walk_f(s[1])

    def walk_f(e):
        t = e[0]
        if t in ('and', 'or'):
            walk_f(e[1]); walk_f(e[2])
        elif t == 'paren':
            walk_f(e[1])
        elif t in ('exists', 'not'):
            walk_o(e[1])
        elif t == 'cmp':
            walk_o(e[2]); walk_o(e[3])
        elif t == 're':
            walk_o(e[1])

    def walk_o(o):
        if o[0] != 'lit':
            walk_steps(o[1])

    walk_steps(steps)
    return sorted(f), sorted(a)


# ---------------------------------------------------------------- targeted families
def refs_family(g, jnum=False, opaque_kinds=None):
    """a document {"list": members, "ref": v, "ref2": w, ...} whose members carry a key `k` with values drawn
    from a small pool that also feeds the root references, and comparison filters between `@.k`, `$.ref`
    and literals in both orders — so that path-vs-path and path-vs-literal comparisons really match some
    members, miss others and meet other types.  Returns (doc, [filter texts])."""
    r = g.r
    if opaque_kinds:
        # at least one kind whose values cannot be compared with Go's == (typed maps and slices) or are
        # fresh pointers: path-vs-path equality must be reflect.DeepEqual on them
        deep = [k for k in opaque_kinds if k in DEEP_ONLY_KINDS]
        # the deep-only kind comes first: it gets the largest weight, so both sides of `==` often hold it
        strict = [k for k in ('freshptr', 'ifacestruct') if k in opaque_kinds]   # equal only by reflect.DeepEqual; `==` differs or panics
        ks = ([r.choice(strict)] if strict else []) + ([r.choice(deep)] if deep else []) + r.sample(opaque_kinds, 1)
        # foreign types that merely look numeric (they have json.Number's conversion method): never numbers for a comparison
        numlike = [k for k in ('fixed', 'ptrfixed') if k in opaque_kinds]
        if numlike and r.random() < 0.5:
            ks.append(r.choice(numlike))
        pool = [('x', k) for k in ks] + [('n', 1.0), ('s', b'x')]
    elif r.random() < 0.15:
        # containers on both sides of path == path: empty array vs empty object, one-element containers of either kind
        pool = [('a', []), ('o', []), ('a', [('n', 1.0)]), ('o', [(b'a', ('n', 1.0))]), ('n', 1.0), ('z',)]
        r.shuffle(pool)
    else:
        nums = r.sample([0.0, 1.0, 2.0, 3.0, 5.0, 1.5, -1.0, 10.0], 3)
        pool = [(('j', fmt_num_literal(x).decode()) if jnum else ('n', x)) for x in nums] + \
               [('s', r.choice([b'x', b'1', b'ab'])), ('b', True), ('z',)]
    w = [5, 4, 3, 2, 1, 1, 1][:len(pool)]
    members = []
    for i in range(r.randint(2, 6)):
        m = [(b'u', ('n', float(100 + i)))]
        if r.random() < 0.85:
            m.append((b'k', r.choices(pool, w)[0]))
        if r.random() < 0.5:
            m.append((b'h', r.choices(pool, w)[0]))
        r.shuffle(m)
        members.append(('o', m))
    body = ('a', members) if r.random() < 0.7 else ('o', list(zip(r.sample(KEY_POOL, len(members)), members)))
    top = [(b'list', body), (b'ref', r.choices(pool, w)[0])]
    if r.random() < 0.7:
        top.append((b'ref2', r.choices(pool, w)[0]))
    if r.random() < 0.3:
        top.append((b'arr', ('a', [r.choices(pool, w)[0] for _ in range(3)])))
    r.shuffle(top)
    doc = ('o', top)
    sp = Spelling()
    lits = [p for p in pool if p[0] in ('n', 's', 'b', 'z')] + [('n', 2.0)]
    if jnum:
        lits += [('n', float(p[1])) for p in pool if p[0] == 'j' and abs(float(p[1])) < 1e308]

    def operand():
        k = r.random()
        if k < 0.4:
            return r.choice([b'@.k', b'@.k', b'@.h', b"@['k']", b'@.zz'])
        if k < 0.75:
            return r.choice([b'$.ref', b'$.ref', b'$.ref2', b'$.arr[0]', b'$.list[0].k', b'$.nope'])
        return render_literal(r.choice(lits), sp)
    exprs = []
    for _ in range(r.randint(2, 5)):
        a, b = operand(), operand()
        if a[:1] == b'@' and b[:1] == b'@':
            b = render_literal(r.choice(lits), sp)
        op = r.choice([b'==', b'==', b'!=', b'<', b'<=', b'>', b'>='])
        e = a + b' ' + op + b' ' + b
        k = r.random()
        if k < 0.15:
            e = e + r.choice([b' && ', b' || ']) + r.choice([b'@.h', b'!@.h', b'@.k == $.ref2', b'$.ref2'])
        elif k < 0.25:
            e = r.choice([b'@.h', b'!@.h', b'$.nope']) + r.choice([b' && ', b' || ']) + e
        exprs.append(e)
    return doc, exprs


def allwild_family(g):
    """an all-wildcard bracket list ([*,*], [*,*,*]) under a multi-valued prefix or a recursive descent and
    followed by further steps, on documents with arrays of different lengths (empty ones included) next to
    objects: on arrays such a list is evaluated by an embedded union step with its own links"""
    r = g.r

    def leaf():
        return r.choice([('n', 1.0), ('s', b'x'), ('o', []), ('o', [(b'a', ('n', 2.0))]), ('o', [(b'a', ('o', [(b'b', ('n', 3.0))]))]),
                         ('a', []), ('a', [('n', 4.0)]), ('a', [('o', [(b'a', ('n', 5.0))]), ('n', 6.0)]), ('z',)])

    def cont(d):
        if d == 0:
            return leaf()
        n = r.choice([0, 1, 2, 2, 3])
        if r.random() < 0.65:
            return ('a', [cont(d - 1) if r.random() < 0.6 else leaf() for _ in range(n)])
        return ('o', [(k, cont(d - 1) if r.random() < 0.6 else leaf()) for k in r.sample([b'a', b'b', b'c', b'd', b'*'], n)])
    doc = cont(r.choice([1, 2, 2, 3]))
    star2 = ('multi', ['*', '*'])
    lst = r.choice([star2, star2, star2, ('multi', ['*', '*', '*']), ('multi', ['*', b'a']), ('multi', [b'a', '*']),
                    ('multi', [b'*', b'*']), ('multi', [b'*', '*']), ('multi', ['*', b'*', b'*'])])
    name_a, name_b = ('name', b'a', 'dot'), ('name', b'b', 'dot')
    prefix = r.choice([[('rec', lst)], [('rec', lst)], [('wild', 'br'), lst], [('wild', 'br'), lst], [('wild', 'dot'), lst], [lst],
                       [('rec', name_a), lst], [('wild', 'br'), ('wild', 'br'), lst], [('union', [('idx', 0), ('idx', 1)]), lst]])
    tail = r.choice([[], [name_a], [name_a], [('union', [('idx', 0)])], [('wild', 'br')], [name_a, name_b], [('rec', name_a)], [name_b]])
    return doc, prefix + tail


def rec_filter_family(g):
    """`..` followed by a filter whose query is true of members that LACK something (a negated existence test, != against a
    literal, or such a test beside others under || / &&): scalars and scalar-only containers pass it, so every container in
    pre-order matters, also the ones met after results exist; under a multi-valued prefix or at the root"""
    r = g.r

    def leaf():
        return r.choice([('n', 1.0), ('n', 2.0), ('n', 5.0), ('s', b'x'), ('z',), ('b', True)])

    def cont(d):
        k = r.random()
        if d == 0 or k < 0.3:
            n = r.choice([1, 2, 2, 3])
            return ('a', [leaf() for _ in range(n)]) if r.random() < 0.6 else ('o', [(kk, leaf()) for kk in r.sample([b'a', b'b', b'c'], min(n, 3))])
        n = r.choice([1, 2, 2, 3])
        if r.random() < 0.5:
            return ('a', [cont(d - 1) if r.random() < 0.6 else leaf() for _ in range(n)])
        return ('o', [(kk, cont(d - 1) if r.random() < 0.6 else leaf()) for kk in r.sample([b'a', b'b', b'c', b'd'], n)])
    doc = cont(r.choice([1, 2, 2, 3]))
    key = r.choice([b'a', b'b', b'c'])
    cur_k = ('cur', [('name', key, 'dot')])
    cur_i = ('cur', [('union', [('idx', 0)])])
    neg = r.choice([('not', cur_k), ('not', cur_k), ('not', cur_i), ('cmp', '!=', cur_k, ('lit', ('n', 1.0))), ('cmp', '!=', cur_k, ('lit', ('s', b'x')))])
    other = r.choice([('exists', ('cur', [('name', r.choice([b'a', b'b']), 'dot')])), ('cmp', '>', ('cur', [('name', b'b', 'dot')]), ('lit', ('n', 1.0))),
                      ('cmp', '==', ('cur', [('name', b'c', 'dot')]), ('lit', ('n', 2.0)))])
    k = r.random()
    e = neg if k < 0.5 else (('or', neg, other) if k < 0.75 else (('or', other, neg) if k < 0.9 else ('and', neg, ('not', ('cur', [('name', b'zz9', 'dot')])))))
    flt = ('rec', ('filter', e))
    prefix = r.choice([[], [], [('wild', 'br')], [('wild', 'dot')], [('name', r.choice([b'a', b'b']), 'dot')], [('wild', 'br'), ('wild', 'br')]])
    tail = r.choice([[], [], [], [('wild', 'br')], [('name', b'a', 'dot')]])
    return doc, prefix + [flt] + tail


def jnum_order_family(g):
    """json.Number members, some of them outside the float64 range, next to ordinary numbers, under ordering and
    equality filters: the numeric conversion of one member must not disturb its siblings"""
    r = g.r
    pool = ['1e400', '-1e999', '2e308', '-2e308', '1e308', '0', '1', '2.5', '-3', '10', '1e2', '0.1']
    n = r.randint(2, 5)
    vals = [('j', r.choice(pool[:4])) if r.random() < 0.4 else ('j', r.choice(pool[4:])) for _ in range(n)]
    if r.random() < 0.2:
        vals[r.randrange(n)] = r.choice([('s', b'1'), ('z',), ('b', True)])
    bare = r.random() < 0.4
    members = vals if bare else [('o', [(b'a', v), (b'u', ('n', float(i)))]) for i, v in enumerate(vals)]
    body = ('a', members) if r.random() < 0.7 else ('o', list(zip(r.sample(KEY_POOL, n), members)))
    doc = ('o', [(b'list', body), (b'ref', ('j', r.choice(pool)))])
    lhs = b'@' if bare else b'@.a'
    op = r.choice([b'<', b'<=', b'>', b'>=', b'>', b'<', b'==', b'!='])
    rhs = r.choice([b'1', b'2.5', b'0', b'-3', b'100', b'$.ref', b'1e400'])
    e = (lhs + b' ' + op + b' ' + rhs) if r.random() < 0.8 else (rhs + b' ' + op + b' ' + lhs)
    if rhs == b'1e400' and op in (b'==', b'!='):
        e = lhs + b' > 1'
    return doc, b'$.list[?(' + e + b')]' + r.choice([b'', b'', b'.u', b'.a'])


def operand_agg_family(g):
    """a filter whose comparison operand runs a nested filter (or a wildcard) and then an aggregate function:
    `@.k[?(@.b > 1)].cnt() == 2`.  The nested filter saves and restores parser state around the operand, and
    the function after it must still see plain values in accessor mode.  Returns (doc, path, aggregate names)."""
    r = g.r
    members = []
    for i in range(r.randint(2, 5)):
        k = ('a', [('o', [(b'b', ('n', float(r.randint(0, 6))))] + ([(b'c', ('s', b'x'))] if r.random() < 0.3 else []))
                   for _ in range(r.randint(0, 4))])
        m = [(b'u', ('n', float(100 + i))), (b'k', k)]
        if r.random() < 0.3:
            m.append((b'h', ('n', float(r.randint(0, 3)))))
        members.append(('o', m))
    doc = ('o', [(b'list', ('a', members)), (b'ref', ('n', float(r.randint(0, 4))))])
    n1, n2 = r.randint(0, 5), r.randint(0, 4)
    agg = r.choice(['cnt', 'cnt', 'amax', 'first', 'arr'])
    inner = r.choice([b'[?(@.b > %d)]' % n1, b'[?(@.b != %d)]' % n1, b'[*]', b'[?(@.c)]', b'[?(@.b > $.ref)]'])
    if agg == 'cnt':
        operand = b'@.k' + inner + b'.cnt()'
        cmp_ = r.choice([b' == %d', b' > %d', b' >= %d', b' != %d']) % n2
    elif agg == 'amax':
        operand = b'@.k' + inner + b'.b.amax()'
        cmp_ = r.choice([b' > %d', b' == %d', b' <= %d']) % n1
    elif agg == 'first':
        operand = b'@.k' + inner + b'.first().b'
        cmp_ = r.choice([b' == %d', b' > %d']) % n1
    else:
        operand = b'@.k' + inner + b'.arr()[0].b'
        cmp_ = r.choice([b' == %d', b' < %d']) % n1
    e = operand + cmp_
    k = r.random()
    if k < 0.2:
        e = e + r.choice([b' && @.h', b' || @.h', b' && @.u > 100'])
    elif k < 0.3:
        e = b'@.h == 1 || ' + e
    tail = r.choice([b'', b'.u', b'.u', b'.k[0].b'])
    return doc, b'$.list[?(' + e + b')]' + tail, [agg]


def nested_arrays_family(g):
    """an array (or object) of arrays of different lengths and slice/index subscripts applied through a
    multi-valued prefix: per-node state left behind by one array would show on the next"""
    r = g.r
    if r.random() < 0.3:
        # chained subscripts on a matrix: the inner subscript runs while the outer one is still iterating
        rows, cols = r.randint(3, 5), r.randint(3, 5)
        doc = ('a', [('a', [('n', float(10 * i + j)) for j in range(cols)]) for i in range(rows)])

        def sl(n):
            k = r.random()
            if k < 0.15:
                return ('idx', r.randint(-n, n - 1))
            a = None if r.random() < 0.3 else r.randint(-n, n)
            b_ = None if r.random() < 0.3 else r.randint(-n, n)
            return ('slice', a, b_, r.choice(['absent', 1, 1, 2, -1, -2]))
        steps = [('union', [sl(rows)] + ([sl(rows)] if r.random() < 0.2 else [])), ('union', [sl(cols)])]
        if r.random() < 0.2:
            steps = [('wild', 'br')] + steps[1:] + [('union', [('idx', 0)])][:0]
        return doc, steps
    arrays = []
    base = 0
    for _ in range(r.randint(2, 5)):
        n = r.choice([0, 1, 2, 2, 3, 5, 7, 8])
        arrays.append(('a', [('n', float(base + i)) for i in range(n)]))
        base += 10
    doc = ('a', arrays) if r.random() < 0.7 else ('o', list(zip(r.sample(KEY_POOL, len(arrays)), arrays)))

    def b():
        return None if r.random() < 0.4 else r.randint(-8, 8)
    step = r.choice([2, 3, 4, -2, -3, 1, -1, 7, 2 ** 63 - 1, -2 ** 63])
    sub = ('slice', b(), b(), step) if r.random() < 0.8 else ('idx', r.randint(-8, 8))
    prefix = r.choice([[('wild', 'br')], [('wild', 'dot')], [('rec', ('union', [sub]))], [('union', [('slice', None, None, 'absent')])]])
    if prefix[0][0] == 'rec':
        return doc, prefix
    return doc, prefix + [('union', [sub] + ([('idx', r.randint(-3, 3))] if r.random() < 0.2 else []))]


def alias_variant(r, doc):
    """the document with one of its non-empty sub-containers referenced a second time from another place (a
    document assembled in Go code rather than decoded: the runner builds equal containers as ONE shared object
    when the case's alias flag is set).  Returns the new document, or None when it has no such sub-container."""
    subs = []

    def walk(d, depth):
        if d[0] == 'a':
            for x in d[1]:
                if x[0] in 'ao' and x[1]:
                    subs.append(x)
                walk(x, depth + 1)
        elif d[0] == 'o':
            for _, x in d[1]:
                if x[0] in 'ao' and x[1]:
                    subs.append(x)
                walk(x, depth + 1)
    walk(doc, 0)
    if not subs or doc[0] not in 'ao':
        return None
    sub = r.choice(subs)
    hosts = []

    def hostwalk(d):
        if d is sub:
            return
        if d[0] in 'ao':
            hosts.append(d)
            for x in (d[1] if d[0] == 'a' else [v for _, v in d[1]]):
                hostwalk(x)
    hostwalk(doc)
    host = r.choice(hosts)

    def rebuild(d):
        if d is host:
            if d[0] == 'a':
                items = [rebuild(x) for x in d[1]]
                items.insert(r.randint(0, len(items)), sub)
                return ('a', items)
            items = [(k, rebuild(v)) for k, v in d[1]]
            if all(k != b'dup' for k, _ in items):
                items.insert(r.randint(0, len(items)), (b'dup', sub))
            return ('o', items)
        if d[0] == 'a':
            return ('a', [rebuild(x) for x in d[1]])
        if d[0] == 'o':
            return ('o', [(k, rebuild(v)) for k, v in d[1]])
        return d
    return rebuild(doc)


def big_fanout_family(g):
    """a terminal wildcard (or slice) over a long array that is NOT the first branch of a multi-valued prefix: results of
    earlier branches are already in the result buffer when the long run of appends starts.  Sizes are heavy-tailed so
    that some case is the largest its worker process has seen (a pooled buffer cannot hide a lost prefix)."""
    r = g.r
    size = r.choice([8, 9, 12, 17, 33, 64, 100, 300, 700, 1500, 3000])
    first = [('s', b's%d' % k) for k in range(r.randint(1, 3))]
    big = [('n', float(k)) for k in range(size)]
    k = r.random()
    if k < 0.4:
        doc = ('a', [('a', first), ('a', big)] + ([('a', [('b', True)])] if r.random() < 0.5 else []))
        steps = [('wild', r.choice(['dot', 'br'])), ('wild', r.choice(['dot', 'br']))]
    elif k < 0.7:
        doc = ('o', [(b'a', ('a', first)), (b'b', ('a', big))])
        steps = [('wild', r.choice(['dot', 'br'])), ('wild', r.choice(['dot', 'br']))]
    else:
        doc = ('o', [(b'p', ('o', [(b'x', ('a', first))])), (b'q', ('o', [(b'x', ('a', big))]))])
        steps = [('rec', ('name', b'x', 'dot')), ('wild', r.choice(['dot', 'br']))]
    return doc, steps
