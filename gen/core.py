"""core.py — shared pieces of the correspondence harness: document and path representations,
their renderings for the Go runner (JSON) and for the extracted Coq model (S-expressions),
Go's string->[]rune decoding, oracle-question extraction, and the pipeline that runs both
sides and returns parsed observations."""
import json
import math
import os
import re
import subprocess
import sys

ROOT = os.path.dirname(os.path.dirname(os.path.abspath(__file__)))
BUILD = os.environ.get('VERIF_BUILD') or os.path.join(ROOT, 'build')
RUNNER = os.path.join(BUILD, 'runner')
RUNNER_RACE = os.path.join(BUILD, 'runner_race')
DRIVER = os.path.join(BUILD, 'ocaml', 'driver')


def hx(b):
    if isinstance(b, str):
        b = b.encode('utf-8')
    return b.hex() if b else '-'


def unhx(h):
    return b'' if h in ('-', '') else bytes.fromhex(h)


# ---------------------------------------------------------------- numbers
def num_me(x):
    """float -> exact (m, e) with m odd (or 0,0); inf/nan as strings."""
    if math.isnan(x):
        return 'nan'
    if math.isinf(x):
        return 'pinf' if x > 0 else 'ninf'
    if x == 0:
        return (0, 0)
    frac, exp = math.frexp(x)
    m = int(frac * (1 << 53))
    e = exp - 53
    while m % 2 == 0:
        m //= 2
        e += 1
    return (m, e)


def num_sx(x):
    me = num_me(x)
    if isinstance(me, str):
        return me
    return '%d %d' % me


def render_num(x):
    me = num_me(x)
    if isinstance(me, str):
        return 'n(%s)' % me
    return 'n(%d,%d)' % me


# ---------------------------------------------------------------- documents
# ('z',) ('b',bool) ('n',float) ('j',spelling str) ('s',bytes) ('a',[doc]) ('o',[(bytes,doc)]) ('x',kind)
KINDS = {}  # name -> (id, type string bytes, selfeq)


def load_kinds():
    out = subprocess.run([RUNNER, 'kinds'], capture_output=True, text=True, check=True).stdout
    KINDS.clear()
    for line in out.splitlines():
        name, idx, ty, se = line.split('\t')
        KINDS[name] = (int(idx), unhx(ty), se == 'true')


def doc_go(d):
    t = d[0]
    if t == 'z':
        return None
    if t == 'b':
        return d[1]
    if t == 'n':
        me = num_me(d[1])
        if isinstance(me, str):
            return {'n': me}
        return {'n': [str(me[0]), me[1]]}
    if t == 'j':
        return {'j': d[1]}
    if t == 's':
        return {'s': hx(d[1])}
    if t == 'a':
        return {'a': [doc_go(x) for x in d[1]]}
    if t == 'o':
        return {'o': [[hx(k), doc_go(v)] for k, v in d[1]]}
    if t == 'x':
        return {'x': d[1]}
    raise ValueError(d)


def doc_sx(d):
    t = d[0]
    if t == 'z':
        return 'z'
    if t == 'b':
        return 't' if d[1] else 'f'
    if t == 'n':
        return '(n %s)' % num_sx(d[1])
    if t == 'j':
        return '(j %s %s)' % (hx(d[1]), num_sx(float(d[1])))
    if t == 's':
        return '(s %s)' % hx(d[1])
    if t == 'a':
        return '(a %s)' % ' '.join(doc_sx(x) for x in d[1])
    if t == 'o':
        return '(o %s)' % ' '.join('(%s %s)' % (hx(k), doc_sx(v)) for k, v in d[1])
    if t == 'x':
        idx, ty, se = KINDS[d[1]]
        return '(x %s %d %d)' % (hx(ty), idx, 1 if se else 0)
    raise ValueError(d)


def doc_render(d):
    """the canonical rendering both sides print (used for expected values in oracles)"""
    t = d[0]
    if t == 'z':
        return 'z'
    if t == 'b':
        return 't' if d[1] else 'f'
    if t == 'n':
        return render_num(d[1])
    if t == 'j':
        return 'j(%s)' % hx(d[1])
    if t == 's':
        return 's(%s)' % hx(d[1])
    if t == 'a':
        return '[' + ','.join(doc_render(x) for x in d[1]) + ']'
    if t == 'o':
        items = sorted(d[1], key=lambda kv: kv[0])
        return '{' + ','.join('%s:%s' % (hx(k), doc_render(v)) for k, v in items) + '}'
    if t == 'x':
        idx, ty, _ = KINDS[d[1]]
        return 'x(%s,%d)' % (hx(ty), idx)
    raise ValueError(d)


def doc_strings(d, out):
    t = d[0]
    if t == 's':
        out.add(d[1])
    elif t == 'a':
        for x in d[1]:
            doc_strings(x, out)
    elif t == 'o':
        for _, v in d[1]:
            doc_strings(v, out)


def doc_json_text(d):
    """JSON text of a plain-JSON document (for replay files / readability)"""
    t = d[0]
    if t == 'z':
        return 'null'
    if t == 'b':
        return 'true' if d[1] else 'false'
    if t == 'n':
        return repr(d[1]) if d[1] != int(d[1]) or abs(d[1]) > 1e15 else str(int(d[1]))
    if t == 'j':
        return d[1]
    if t == 's':
        return json.dumps(d[1].decode('utf-8', 'replace'))
    if t == 'a':
        return '[' + ','.join(doc_json_text(x) for x in d[1]) + ']'
    if t == 'o':
        return '{' + ','.join('%s:%s' % (json.dumps(k.decode('utf-8', 'replace')), doc_json_text(v)) for k, v in d[1]) + '}'
    if t == 'x':
        return '<go:%s>' % d[1]
    raise ValueError(d)


# ---------------------------------------------------------------- Go's []rune(string)
def decode_one(b, i):
    """utf8.DecodeRune(b[i:]) -> (rune, size); invalid input gives (U+FFFD, 1)"""
    n = len(b)
    c = b[i]
    if c < 0x80:
        return c, 1
    lo, hi = 0x80, 0xBF
    if 0xC2 <= c <= 0xDF:
        need, cp = 1, c & 0x1F
    elif 0xE0 <= c <= 0xEF:
        need, cp = 2, c & 0x0F
        if c == 0xE0:
            lo = 0xA0
        if c == 0xED:
            hi = 0x9F
    elif 0xF0 <= c <= 0xF4:
        need, cp = 3, c & 0x07
        if c == 0xF0:
            lo = 0x90
        if c == 0xF4:
            hi = 0x8F
    else:
        return 0xFFFD, 1
    if i + need >= n:
        return 0xFFFD, 1
    c1 = b[i + 1]
    if not (lo <= c1 <= hi):
        return 0xFFFD, 1
    cp = (cp << 6) | (c1 & 0x3F)
    for k in range(2, need + 1):
        ck = b[i + k]
        if not (0x80 <= ck <= 0xBF):
            return 0xFFFD, 1
        cp = (cp << 6) | (ck & 0x3F)
    return cp, need + 1


def go_runes(b):
    """decode bytes the way Go's []rune(string) does: every invalid byte becomes U+FFFD"""
    out = []
    i = 0
    while i < len(b):
        r, size = decode_one(b, i)
        out.append(r)
        i += size
    return out


def rune_byte_offsets(b):
    """byte offset of every rune index (plus len(b) for the end), Go decoding"""
    offs = []
    i = 0
    while i < len(b):
        offs.append(i)
        _, size = decode_one(b, i)
        i += size
    offs.append(len(b))
    return offs


# ---------------------------------------------------------------- oracle questions
NUM_RE = re.compile(rb'[-+]?[0-9][-+.0-9a-zA-Z]*')


def float_candidates(path_bytes):
    """every text the lNumber rule could capture: the greedy match at every offset, and —
    because the PEG match is greedy too — nothing else"""
    out = set()
    text = bytes(utf8_of_runes(go_runes(path_bytes)))
    for i in range(len(text)):
        m = NUM_RE.match(text, i)
        if m:
            out.add(m.group(0))
    return out


def regex_candidates(path_bytes):
    """the match of `regex <- ( '\\\\' [\\\\/] / [^/] )*` after every '/'"""
    out = set()
    text = bytes(utf8_of_runes(go_runes(path_bytes)))
    for i in range(len(text)):
        if text[i:i + 1] == b'/':
            j = i + 1
            while j < len(text):
                if text[j:j + 1] == b'\\' and text[j + 1:j + 2] in (b'\\', b'/'):
                    j += 2
                elif text[j:j + 1] != b'/':
                    j += 1
                else:
                    break
            out.add(text[i + 1:j])
    return out


def utf8_of_runes(runes):
    out = bytearray()
    for r in runes:
        if 0xD800 <= r <= 0xDFFF or r > 0x10FFFF:
            r = 0xFFFD
        out += chr(r).encode('utf-8')
    return out


# ---------------------------------------------------------------- cases
def bq_sx(b):
    inner = ' '.join('(%s)' % kstep_sx(x) for x in b[1])
    if b[0] == 'c':
        return '(c (%s) %d %s)' % (inner, b[2], ' '.join(str(x) for x in b[3]))
    if b[0] == 'cl':
        # the number literal on the left: ('cl', inner, op, literal code points) for `literal OP @inner`
        return '(cl (%s) %d %s)' % (inner, b[2], ' '.join(str(x) for x in b[3]))
    if b[0] in ('cr', 'rl'):
        # an ordering against a `$` path: ('cr', inner, op, root steps); ('re', root steps) / ('rn', root steps): `$ steps` / `!$ steps`
        return '(%s (%s) %d (%s))' % (b[0], inner, b[2], ' '.join('(%s)' % kstep_sx(x) for x in b[3]))
    if b[0] == 'x':
        # a regular-expression test @inner=~/body/: ('x', inner, body code points)
        return '(x (%s) %s)' % (inner, ' '.join(str(x) for x in b[2]))
    if b[0] == 'pq':
        # == / != between the member's value and what a `$` path reaches: ('pq', inner, ne, root steps)
        return '(pq (%s) %d (%s))' % (inner, 1 if b[2] else 0, ' '.join('(%s)' % kstep_sx(x) for x in b[3]))
    if b[0] in ('l', 'll'):
        # == / != against a string ('s', quote, body cps), boolean ('b', 0/1, spelling) or null ('n', spelling) literal
        lv = b[3]
        lit = ('s %d %s' % (lv[1], ' '.join(str(x) for x in lv[2]))) if lv[0] == 's' else ('b %d %d' % (lv[1], lv[2])) if lv[0] == 'b' else 'n %d' % lv[1]
        return '(%s (%s) %d (%s))' % (b[0], inner, 1 if b[2] else 0, lit)
    return '(%s %s)' % (b[0], inner)


def qt_sx(t):
    """a query with parenthesised sub-queries: ('b', basic query) | ('p', t) | ('a', l, r) | ('o', l, r)"""
    if t[0] == 'b':
        return '(b %s)' % bq_sx(t[1])
    if t[0] == 'p':
        return '(p %s)' % qt_sx(t[1])
    return '(%s %s %s)' % (t[0], qt_sx(t[1]), qt_sx(t[2]))


def kstep_sx(st):
    """one step of a Coq chain_path: (code, cps) | (4, code, cps...) for `..step` | (5, a, b, c-or-None) for a slice"""
    if st[0] == 4:
        return '4 ' + kstep_sx(tuple(st[1:]))
    if st[0] == 11:
        # `..` before a filter step: (11, the filter step)
        return '11 (%s)' % kstep_sx(st[1])
    if st[0] in (7, 9):
        # an existence filter [?(@ inner)]: (7, [inner steps]); its negation [?(!@ inner)]: (9, [inner steps])
        return '%d ' % st[0] + ' '.join('(%s)' % kstep_sx(x) for x in st[1])
    if st[0] == 10:
        # a filter over a query in disjunctive form: (10, [[basic query, ...], ...]); a basic query is ('e', inner) | ('n', inner) | ('c', inner, op, lit)
        return '10 ' + ' '.join('(%s)' % ' '.join(bq_sx(b) for b in conj) for conj in st[1])
    if st[0] == 12:
        # a comparison filter with blanks: (12, [inner steps], blanks after `?(`, before the operator, operator, after it, before `)`, literal code points)
        return '12 (%s) %d %d %d %d %d %s' % (' '.join('(%s)' % kstep_sx(x) for x in st[1]), st[2], st[3], st[4], st[5], st[6], ' '.join(str(x) for x in st[7]))
    if st[0] == 13:
        # an existence filter (negated: 1) with blanks: (13, neg, blanks after `?(`, after `!`, before `)`, [inner steps])
        return '13 %d %d %d %d %s' % (1 if st[1] else 0, st[2], st[3], st[4], ' '.join('(%s)' % kstep_sx(x) for x in st[5]))
    if st[0] == 15:
        # a filter over a query with parenthesised sub-queries: (15, tree)
        return '15 ' + qt_sx(st[1])
    if st[0] == 14:
        # a query in disjunctive form with blanks: (14, blanks after `?(`, [(blanks after `||`, [(blanks after `&&`, elem)])]);
        # elem = ('e', neg, blanks after `!`, [inner steps], trailing blanks) | ('c', [inner steps], blanks before op, op, blanks after, literal cps, trailing blanks)
        def selem(gap, e):
            if e[0] == 'e':
                return '(%d e %d %d %d %s)' % (gap, 1 if e[1] else 0, e[2], e[4], ' '.join('(%s)' % kstep_sx(x) for x in e[3]))
            return '(%d c (%s) %d %d %d %d %s)' % (gap, ' '.join('(%s)' % kstep_sx(x) for x in e[1]), e[2], e[3], e[4], e[6], ' '.join(str(x) for x in e[5]))
        return '14 %d ' % st[1] + ' '.join('(%d %s)' % (gc, ' '.join(selem(ge, e) for ge, e in conj)) for gc, conj in st[2])
    if st[0] == 8:
        # a comparison filter [?(@ inner OP number)]: (8, [inner steps], operator code 0..5, literal code points)
        return '8 (%s) %d %s' % (' '.join('(%s)' % kstep_sx(x) for x in st[1]), st[2], ' '.join(str(x) for x in st[3]))
    if st[0] == 5:
        parts = ['5'] + ['(%s)' % ' '.join(str(x) for x in t) for t in st[1:3]]
        if st[3] is not None:
            parts.append('(%s)' % ' '.join(str(x) for x in st[3]))
        return ' '.join(parts)
    if st[0] == 6:
        out = ['6']
        for sub in st[1]:
            if sub[0] == 'i':
                out.append('(i %s)' % ' '.join(str(x) for x in sub[1]))
            elif sub[0] == 'w':
                out.append('(w)')
            else:
                out.append('(s (%s) (%s)%s)' % (' '.join(str(x) for x in sub[1]), ' '.join(str(x) for x in sub[2]),
                                                 '' if sub[3] is None else ' (%s)' % ' '.join(str(x) for x in sub[3])))
        return ' '.join(out)
    return ' '.join([str(st[0])] + [str(x) for x in st[1]])


class Case:
    """one harness case: a path (bytes), a configuration, documents, a mode"""

    def __init__(self, cid, path, docs=(), filters=(), aggs=(), acc=False, nocfg=False, mode='eval', meta=None):
        self.id = cid
        self.path = path if isinstance(path, bytes) else path.encode('utf-8')
        self.docs = list(docs)
        self.filters = list(filters)
        self.aggs = list(aggs)
        self.acc = acc
        self.nocfg = nocfg
        self.mode = mode
        self.meta = meta or {}
        self.tables = None
        self.pre = None          # a path parsed right before the case (ambient history), bytes
        self.alias = False       # build equal sub-containers as one shared Go object
        self.packed = 0          # > 0: all arrays of a document carved out of one backing array (implementation side only)
        self.pad = None          # with keyc: (n1, n2) blanks before / after: the text is Coq padded_path
        self.nodollar = False    # with keyc: the text is Coq chain_path0 (leading $ omitted)
        self.keyf = None         # with keyc: [function name code points]: the text is Coq chain_fun_path (steps, then .name() each)
        self.keyc = None         # [(quote code point or 0 for the dot spelling, key code points)]: path == Coq chain_path
        self.keyq = None         # (quote code point, key code points): the driver confirms path == Coq key_path
        self.pinned = False      # model side: parse with the grammar of the pinned tree (GrammarPinned.v), not the regenerated one

    def go_json(self):
        return json.dumps({'id': self.id, 'mode': self.mode, 'path_hex': hx(self.path),
                           'pre_hex': hx(self.pre) if self.pre else '', 'alias': self.alias, 'packed': self.packed,
                           'filters': self.filters, 'aggs': self.aggs, 'acc': self.acc, 'nocfg': self.nocfg,
                           'docs': [doc_go(d) for d in self.docs]})

    def oracle_json(self):
        floats = sorted(float_candidates(self.path))
        regexes = sorted(regex_candidates(self.path))
        strings = set()
        for d in self.docs:
            doc_strings(d, strings)
        # strings the function library can produce
        for extra in (b'float64', b'string', b'bool', b'null', b'[]interface {}', b'map[string]interface {}', b'json.Number'):
            strings.add(extra)
        if regexes and any('<go:' in doc_json_text(d) for d in self.docs):
            for _, ty, _ in KINDS.values():
                strings.add(ty)
        matches = [[hx(r), hx(s)] for r in regexes for s in sorted(strings)] if regexes else []
        return json.dumps({'id': self.id, 'floats_hex': [hx(f) for f in floats],
                           'regexes_hex': [hx(r) for r in regexes], 'matches_hex': matches})

    def sx(self):
        t = self.tables or {'pf': [], 'rx': [], 'rm': []}
        filters = [] if self.nocfg else self.filters
        aggs = [] if self.nocfg else self.aggs
        acc = False if self.nocfg else self.acc
        parts = ['(case %s' % self.id,
                 '(path %s)' % ' '.join(str(r) for r in go_runes(self.path)),
                 '(cfg (%s) (%s) %d)' % (' '.join(hx(f) for f in filters), ' '.join(hx(a) for a in aggs), 1 if acc else 0),
                 '(pf %s)' % ' '.join(t['pf']),
                 '(rx %s)' % ' '.join(t['rx']),
                 '(rm %s)' % ' '.join(t['rm']),
                 '(docs %s)' % ' '.join(doc_sx(d) for d in self.docs)]
        if self.keyq:
            parts.append('(keyq %d %s)' % (self.keyq[0], ' '.join(str(x) for x in self.keyq[1])))
        if self.keyc:
            parts.append('(keyc %s)' % ' '.join('(%s)' % kstep_sx(st) for st in self.keyc))
            if self.nodollar:
                parts.append('(nodollar 1)')
            if self.pad:
                parts.append('(pad %d %d)' % self.pad)
        if self.keyf:
            parts.append('(keyf %s)' % ' '.join('(%s)' % ' '.join(str(x) for x in f) for f in self.keyf))
        if self.pinned:
            parts.append('(pinned 1)')
        parts.append('(mode %s))' % self.mode)
        return ' '.join(parts)

    def describe(self):
        return {'id': self.id, 'path': self.path.decode('utf-8', 'backslashreplace'), 'path_hex': hx(self.path),
                'filters': self.filters, 'aggs': self.aggs, 'accessor': self.acc, 'nocfg': self.nocfg,
                'docs': [doc_json_text(d) for d in self.docs], 'docs_desc': [doc_go(d) for d in self.docs],
                'mode': self.mode, 'meta': self.meta, 'alias': self.alias, 'pinned': self.pinned, 'packed': self.packed}


def parse_obs_line(line):
    parts = line.rstrip('\n').split('\t')
    obs = {'id': parts[0]}
    for p in parts[1:]:
        k, _, v = p.partition('=')
        obs[k] = v
    return obs


def run_lines(cmd, lines, timeout=3600):
    p = subprocess.run(cmd, input=('\n'.join(lines) + '\n').encode(), capture_output=True, timeout=timeout)
    if p.returncode != 0:
        raise RuntimeError('%s failed (%d): %s' % (cmd[0], p.returncode, p.stderr.decode('utf-8', 'replace')[-2000:]))
    return p.stdout.decode('utf-8', 'replace').splitlines()


def num_sx_from_render(r):
    # r = n(m,e) | n(pinf) ...
    inner = r[2:-1]
    if ',' in inner:
        m, e = inner.split(',')
        return '%s %s' % (m, e)
    return inner


def fill_tables(cases, runner=None):
    """ask Go's strconv/regexp (directly) the questions the model's oracles will need"""
    runner = runner or RUNNER
    lines = run_lines([runner, 'oracle'], [c.oracle_json() for c in cases])
    for c, line in zip(cases, lines):
        o = parse_obs_line(line)
        assert o['id'] == c.id, (o['id'], c.id)
        pf, rx, rm = [], [], []
        if o.get('pf'):
            for item in o['pf'].split(';'):
                h, _, v = item.partition(':')
                pf.append('(%s err)' % h if v == 'err' else '(%s %s)' % (h, num_sx_from_render(v)))
        if o.get('rx'):
            for item in o['rx'].split(','):
                h, _, v = item.partition(':')
                rx.append('(%s %s)' % (h, v))
        if o.get('rm'):
            for item in o['rm'].split(','):
                a, b, v = item.split(':')
                rm.append('(%s %s %s)' % (a, b, v))
        c.tables = {'pf': pf, 'rx': rx, 'rm': rm}


def run_go(cases, jobs=16, timeout_ms=20000, runner=None):
    runner = runner or RUNNER
    lines = run_lines([runner, 'run', '-j', str(jobs), '-t', str(timeout_ms)], [c.go_json() for c in cases])
    out = [parse_obs_line(l) for l in lines]
    assert len(out) == len(cases), (len(out), len(cases))
    return out


def run_model(cases, jobs=16):
    """run the extracted model; shard over processes"""
    import concurrent.futures
    lines = [c.sx() for c in cases]
    if not lines:
        return []
    nshard = max(1, min(jobs, len(lines) // 50 + 1))
    shards = [lines[i::nshard] for i in range(nshard)]
    with concurrent.futures.ThreadPoolExecutor(nshard) as ex:
        outs = list(ex.map(lambda sh: run_lines([DRIVER], sh), shards))
    res = [None] * len(lines)
    for k, o in enumerate(outs):
        for j, line in enumerate(o):
            res[k + j * nshard] = parse_obs_line(line)
    assert all(r is not None for r in res)
    return res
