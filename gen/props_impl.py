"""props_impl.py — the 20 property checks (dynamic part): generators, projections, direct
oracles.  Imported at the end of props.py.  See DESIGN §5/§6."""
import collections
import itertools
import os
import random
import re

import core
import gens
import strgen
from core import Case, hx, unhx
from props import (Prop, register, both_sides, cls_of, values_of, parse_render, mk_eval_cases, load_corpus,
                   crashy, case_from_desc, doc_from_json)

TRUSTED_EVAL = ['coq/Eval.v, coq/Tree.v, coq/Json.v: hand-written model of syntax_*.go, tied to the code by the '
                'correspondence check only',
                'Go strconv.ParseFloat / regexp answered by oracle tables produced by calling them directly']
TRUSTED_PARSE = ['coq/Grammar.v regenerated from /repo/jsonpath.peg by tools/peg2coq.py on every run',
                 'coq/Actions.v, coq/Text.v: hand-written model of jsonpath_parser.go and the grammar actions',
                 'the generated parser jsonpath.peg.go is not translated; it is validated differentially']


def sig_of(case, what):
    return '%s|%s|%s' % (what, case.path.decode('utf-8', 'backslashreplace'),
                         ';'.join(core.doc_json_text(d) for d in case.docs)[:300])


def harness_problem(o):
    sk = [k for k in o if re.fullmatch(r'S\d+', k)]
    if sk:
        return 'SPEC: the evaluator model differs from the specification (Spec.v) on this input: %s=%s' % (sk[0], o[sk[0]][:200])
    if o.get('WF') == '0':
        return 'WF=0 (the parser model built a tree outside the well-formedness the theorems assume)'
    for k in ('ORACLE_MISS', 'DRIVER_ERROR', 'RUNNER_ERROR'):
        if k in o:
            return '%s=%s' % (k, o[k])
    return None


def compare_cases(res, cases, go, mo, project, what, nontrivial=None, on_go=None):
    """generic correspondence: compare the property's projection of both observations"""
    for c, g, m in zip(cases, go, mo):
        res.evaluations += 1
        hp = harness_problem(g) or harness_problem(m)
        if hp:
            res.violation('broken-correspondence', 'harness:' + hp[:60], 'harness problem on %r: %s' % (c.path, hp), c)
            continue
        pg, pm = project(g, c), project(m, c)
        res.dist[cls_of(g.get('R0', 'P:' + g.get('P', '?')))] += 1
        if pg != pm:
            res.disagreements_checked += 1
            res.violation('concrete', sig_of(c, what),
                          '%s: implementation and verified model differ on %r' % (what, c.path), c,
                          expected=pm, observed=pg)
        if on_go:
            on_go(c, g)
        if nontrivial and nontrivial(c, g):
            res.nontrivial.add((c.path, tuple(core.doc_render(d) for d in c.docs)))
        if len(res.samples) < 6 and (not nontrivial or nontrivial(c, g)):
            res.sample({'path': c.path.decode('utf-8', 'backslashreplace'), 'docs': [core.doc_json_text(d) for d in c.docs][:3],
                        'observed': {k: v[:200] for k, v in g.items() if k != 'id'}})


def rkeys(o, prefix):
    return sorted((k for k in o if re.fullmatch(prefix + r'\d+', k)), key=lambda k: int(k[len(prefix):]))


def unwrap_acc(r):
    """A(1,v) -> v in an ok:[…] observation"""
    if not r.startswith('ok:['):
        return r
    vals = values_of(r)
    out = []
    for v in vals:
        if v.startswith('A(') and v.endswith(')'):
            out.append(v[4:-1])
        else:
            out.append(v)
    return 'ok:[' + ','.join(out) + ']'


def pclass(p):
    """parse outcome class used by C02: ok / syn / arg / fnf / nsp / crash…"""
    return cls_of(p)


def replay_generic(prop, ctx, res, v, project, what):
    c = case_from_desc(v['case'])
    if (c.meta or {}).get('family') == 'long-path' or len(c.path) > 20000:
        # a path of tens of thousands of characters: implementation only (see the long-path family), outcome known by construction
        g_ = core.run_go([c])[0]
        print('implementation: %s' % {k: (x[:120] if isinstance(x, str) else x) for k, x in g_.items() if k != 'id'})
        n_ = c.path.count(b',') + 1
        if c.path.endswith(b']]'):
            good = g_.get('P') == 'syn:%d:unrecognized' % (len(c.path) - 1)
        else:
            good = g_.get('P') == 'ok' and g_.get('R0', '').count('n(1,0)') == n_
        if not good:
            res.violation('concrete', 'replay', 'a path of %d characters does not behave as its construction says' % len(c.path), c)
        return
    go, mo = both_sides([c], runner=core.RUNNER_RACE if prop.needs_race else None)
    compare_cases(res, [c], go, mo, project, what)
    print('implementation: %s' % {k: x for k, x in go[0].items() if k != 'id'})
    print('model         : %s' % {k: x for k, x in mo[0].items() if k != 'id'})


class EvalProp(Prop):
    """a property decided by comparing a projection of (path, config, documents) cases"""
    what = ''
    trusted = TRUSTED_EVAL

    def project(self, o, c):
        raise NotImplementedError

    def cases(self, ctx, g, n):
        raise NotImplementedError

    def nontrivial(self, c, g):
        return True

    def on_go(self, res):
        return None

    def quick_n(self):
        return 3000

    def thorough_n(self):
        return 60000

    def run(self, ctx, res, budget_scale=1, seed_offset=0):
        g = gens.G(ctx.seed * 7919 + seed_offset + sum(map(ord, self.id)))
        cases = []
        if seed_offset == 0:
            cases += load_corpus(self.id, ctx.root)
        n = ctx.n(self.quick_n(), self.thorough_n()) * budget_scale
        cases += self.cases(ctx, g, n)
        for k in range(0, len(cases), 20000):
            chunk = cases[k:k + 20000]
            go, mo = both_sides(chunk)
            compare_cases(res, chunk, go, mo, self.project, self.what, self.nontrivial, self.on_go(res))
        self.extra(ctx, res, g, budget_scale)

    def extra(self, ctx, res, g, budget_scale):
        pass

    def replay(self, ctx, res, v):
        replay_generic(self, ctx, res, v, self.project, self.what)


def chain_below(v):
    """the containers below (and including) v, pre-order, objects in ascending key order"""
    out = []
    if v[0] == 'a':
        out.append(v)
        for x in v[1]:
            out += chain_below(x)
    elif v[0] == 'o':
        out.append(v)
        for _, x in sorted(v[1], key=lambda kv: kv[0]):
            out += chain_below(x)
    return out


def gen_loc_chain(g):
    """a document, one of its nodes (not the root), and the path that spells the node's location, written as Coq's chain_path
    writes it (names in any of the three spellings, indexes in decimal): (doc, text, spec for keyc, location, value)"""
    r = g.r
    for _ in range(20):
        doc = g.doc(4, False, 0)
        cur, text, spec, loc = doc, '$', [], ''
        while cur[0] in 'ao' and cur[1] and (not spec or r.random() < 0.75):
            if cur[0] == 'a':
                n_ = r.randrange(len(cur[1]))
                digits = ('0' * r.choice([0, 0, 1])) + str(n_)
                text += '[' + digits + ']'
                spec.append((1, [ord(ch) for ch in digits]))
                loc += '/i%d' % n_
                cur = cur[1][n_]
            else:
                keys = sorted({kk for kk, _ in cur[1]})
                kb = r.choice(keys)
                key = kb.decode('utf-8')
                dot = gens.esc_dot(kb)
                style = r.choice("'\"." if dot is not None else "'\"")
                cps_ = [ord(ch) for ch in key]
                if style == '.':
                    text += '.' + dot.decode('utf-8')
                    spec.append((0, cps_))
                else:
                    body = ''.join('\\' + ch if ch in (style, '\\') else ('\\u%04x' % ord(ch) if ord(ch) < 0x20 else ch) for ch in key)
                    text += '[' + style + body + style + ']'
                    spec.append((ord(style), cps_))
                loc += '/k' + core.hx(kb)
                cur = [x for kk, x in cur[1] if kk == kb][-1]
        if spec:
            return doc, text, spec, loc, cur
    return None


def chain_children(v):
    """the elements of an array in index order / the member values of an object in ascending key order"""
    if v[0] == 'a':
        return list(v[1])
    if v[0] == 'o':
        seen = {}
        for kk, x in v[1]:
            seen[kk] = x
        return [seen[kk] for kk in sorted(seen)]
    return []


def inner_reach(spec, vals):
    """the values the inner steps of a filter (names, decimal indexes, wildcards, `..name`) reach from vals"""
    cur = list(vals)
    for st in spec:
        rec = st[0] == 4
        if rec:
            cur = [c1 for v in cur for c1 in chain_below(v)]
            st = tuple(st[1:])
        if st[0] in (2, 3):
            cur = [x for v in cur for x in chain_children(v)]
        elif st[0] == 1:
            n_ = int(''.join(chr(c) for c in st[1]))
            cur = [v[1][n_] for v in cur if v[0] == 'a' and n_ < len(v[1])]
        else:
            kb = ''.join(chr(c) for c in st[1]).encode('utf-8')
            nxt = []
            for v in cur:
                if v[0] == 'o':
                    nxt += [x for kk, x in v[1] if kk == kb][-1:]
            cur = nxt
    return cur


def norm_val(v):
    """a harness value up to what reflect.DeepEqual sees (members of an object: last duplicate wins, order irrelevant)"""
    if v[0] == 'a':
        return ('a', tuple(norm_val(x) for x in v[1]))
    if v[0] == 'o':
        d = {}
        for k, x in v[1]:
            d[k] = norm_val(x)
        return ('o', tuple(sorted(d.items())))
    return tuple(v)


def gen_inner(r, child):
    """0..2 inner steps of a filter over a value like child: (text, spec)"""
    text, spec, cur = '', [], child
    for _ in range(r.choice([0, 1, 1, 1, 2])):
        rec = r.random() < 0.15
        k = r.random()
        if cur is not None and cur[0] == 'a' and k < 0.6:
            n_ = r.randint(0, len(cur[1]))
            text += ('..' if rec else '') + '[%d]' % n_
            spec.append((4, 1, [ord(ch) for ch in str(n_)]) if rec else (1, [ord(ch) for ch in str(n_)]))
            cur = cur[1][n_] if n_ < len(cur[1]) else None
        elif k < 0.15:
            dotw = r.random() < 0.5
            text += ('..*' if dotw else '..[*]') if rec else ('.*' if dotw else '[*]')
            spec.append((4, 2 if dotw else 3, []) if rec else ((2, []) if dotw else (3, [])))
            ch = chain_children(cur) if cur is not None else []
            cur = ch[0] if ch else None
        else:
            keys = [kk for kk, _ in cur[1]] if cur is not None and cur[0] == 'o' else []
            kb = r.choice(keys) if keys and r.random() < 0.8 else r.choice([b'a', b'b', b'k', b'zz9'])
            key = kb.decode('utf-8')
            dot = gens.esc_dot(kb)
            style = r.choice("'\"." if dot is not None else "'\"")
            cps_ = [ord(ch) for ch in key]
            if style == '.':
                text += ('..' if rec else '.') + dot.decode('utf-8')
                spec.append((4, 0, cps_) if rec else (0, cps_))
            else:
                body = ''.join('\\' + ch if ch in (style, '\\') else ('\\u%04x' % ord(ch) if ord(ch) < 0x20 else ch) for ch in key)
                text += ('..' if rec else '') + '[' + style + body + style + ']'
                spec.append((4, ord(style), cps_) if rec else (ord(style), cps_))
            nxt = [x for kk, x in cur[1] if kk == kb][-1:] if cur is not None and cur[0] == 'o' else []
            cur = nxt[0] if nxt else None
    return text, spec


def gen_chain(g, filters=0.0, roots=0.0, doc=None, small=False):
    """a document and a path of steps written as Coq's chain_path writes them: (doc, text, spec for keyc, values reached);
    with filters > 0 some steps are existence filters [?(@ inner)] (the text is then Coq's fchain_path); with roots > 0 some
    basic queries of a query filter look at the document: `$ steps`, `!$ steps`, `@ inner OP $ steps`"""
    r = g.r
    doc = g.doc(3, False, 0) if doc is None else doc
    cur, text, spec = [doc], '$', []
    g.last_marks = []            # where every step starts in the text (C08: the text split at a step boundary)
    for _ in range(r.randint(1, 2) if small else r.randint(1, 4)):
        g.last_marks.append(len(text))
        if filters and r.random() < filters:
            frec = r.random() < 0.2
            if frec:
                # `..` before the filter: applied to every container below (and including) each value, in pre-order
                cur = [c1 for v in cur for c1 in chain_below(v)]
                text += '..'

            def add_f(entry, frec=frec):
                spec.append((11, entry) if frec else entry)
            conts = [v for v in cur if v[0] in 'ao' and v[1]]
            kids = chain_children(r.choice(conts)) if conts else []
            if r.random() < (0.8 if small else 0.3):
                # a query in disjunctive form: b&&b||b..., every b an existence test, its negation or a comparison; no blanks
                def one_bq():
                    k0 = r.random()
                    if roots and r.random() < roots:
                        # a `$`-rooted operand: an existence test on the document, its negation, or an ordering against the number it reaches
                        kr = r.random()
                        single = kr >= 0.5
                        wantnum = single and r.random() < 0.8
                        for _t in range(24):
                            jt, jsp = gen_inner(r, doc)
                            if single and not all(st[0] not in (2, 3, 4) for st in jsp):
                                continue
                            hit = inner_reach(jsp, [doc])
                            if not wantnum or (len(hit) == 1 and hit[0][0] == 'n'):
                                break
                        else:
                            jt, jsp = '', []
                        hit = inner_reach(jsp, [doc])
                        if kr < 0.3:
                            return '$' + jt, ('re', jsp), (lambda x, hit=hit: bool(hit))
                        if kr < 0.5:
                            return '!$' + jt, ('rn', jsp), (lambda x, hit=hit: not hit)
                        for _t in range(12):
                            it, isp = gen_inner(r, r.choice(kids) if kids else None)
                            if all(st[0] not in (2, 3, 4) for st in isp) and (_t >= 8 or any(x[0] == 'n' for k1 in kids for x in inner_reach(isp, [k1])[:1])):
                                break
                        else:
                            it, isp = '', []
                        if r.random() < 0.4:
                            # == / != between the two paths: deep equality with the one value the `$` path reaches; when it reaches
                            # nothing, every member is kept exactly when no member has the inner value either (the both-absent rule)
                            if r.random() < 0.6 and kids:
                                for _t in range(24):
                                    jt2, jsp2 = gen_inner(r, doc)
                                    if not all(st[0] not in (2, 3, 4) for st in jsp2):
                                        continue
                                    hit2 = inner_reach(jsp2, [doc])
                                    if len(hit2) == 1 and any(norm_val(y) == norm_val(hit2[0]) for k1 in kids for y in inner_reach(isp, [k1])[:1]):
                                        jt, jsp, hit = jt2, jsp2, hit2
                                        break
                            ne = r.random() < 0.4
                            wv = norm_val(hit[0]) if len(hit) == 1 else None

                            def tq(x, sibs, isp=isp, ne=ne, wv=wv, none=not hit):
                                if none:
                                    eq = not any(inner_reach(isp, [y]) for y in sibs)
                                else:
                                    got = inner_reach(isp, [x])
                                    eq = bool(got) and wv is not None and norm_val(got[0]) == wv
                                return (not eq) if ne else eq
                            tq.sibs = True
                            if len(hit) <= 1:
                                if r.random() < 0.3:
                                    # the `$` path on the left (Coq's BRL): the same comparison
                                    return '$' + jt + ('!=' if ne else '==') + '@' + it, ('rl', isp, 1 if ne else 0, jsp), tq
                                return '@' + it + ('!=' if ne else '==') + '$' + jt, ('pq', isp, ne, jsp), tq
                        oc = r.randrange(2, 6)
                        fv = hit[0][1] if len(hit) == 1 and hit[0][0] == 'n' else None

                        def tr(x, isp=isp, oc=oc, fv=fv):
                            got = inner_reach(isp, [x])
                            if fv is None or not got or got[0][0] != 'n':
                                return False
                            a = got[0][1]
                            return [a == fv, a != fv, a < fv, a <= fv, a > fv, a >= fv][oc]
                        if r.random() < 0.3:
                            mo = [0, 1, 4, 5, 2, 3][oc]
                            return '$' + jt + ['==', '!=', '<', '<=', '>', '>='][mo] + '@' + it, ('rl', isp, mo, jsp), tr
                        return '@' + it + ['==', '!=', '<', '<=', '>', '>='][oc] + '$' + jt, ('cr', isp, oc, jsp), tr
                    if k0 < 0.1:
                        # a regular-expression test on a single-valued operand (patterns in the common subset of RE2 and Python, ASCII strings)
                        for _t in range(12):
                            it, isp = gen_inner(r, r.choice(kids) if kids else None)
                            if all(st[0] not in (2, 3, 4) for st in isp) and (_t >= 8 or any(x[0] == 's' for k1 in kids for x in inner_reach(isp, [k1])[:1])):
                                break
                        else:
                            it, isp = '', []
                        pat = r.choice(['a', '^a', 'b$', '.', 'x', '^$', '1', '^ab$', 'a|b', '[a-c]', '\\d', 'a b', 'b?c', '(?i)x', '^[^a]', 'y|^$', 'b*', '^x?', 'z*', '(ab)?', '^(..)?$'])
                        rx = re.compile(pat.encode('ascii'))

                        def tx(x, isp=isp, rx=rx):
                            got = inner_reach(isp, [x])
                            return bool(got) and got[0][0] == 's' and rx.search(got[0][1]) is not None
                        return '@' + it + '=~/' + pat + '/', ('x', isp, [ord(ch) for ch in pat]), tx
                    if k0 < 0.4:
                        for _t in range(6):
                            it, isp = gen_inner(r, r.choice(kids) if kids else None)
                            if all(st[0] not in (2, 3, 4) for st in isp):
                                break
                        else:
                            it, isp = '', []
                        nums = [x[1] for k1 in kids for x in inner_reach(isp, [k1]) if x[0] == 'n' and x[1] == x[1] and abs(x[1]) < 1e15]
                        val = (r.choice(nums) if nums and r.random() < 0.8 else float(r.randint(-3, 9))) + r.choice([0, 0, 1, -1, 0.5])
                        lit = r.choice(['%g' % val, repr(val)])
                        try:
                            fv = float(lit)
                        except ValueError:
                            lit, fv = '1', 1.0
                        oc = r.randrange(6)

                        def t(x, isp=isp, oc=oc, fv=fv):
                            got = inner_reach(isp, [x])
                            if not got or got[0][0] != 'n':
                                return oc == 1
                            a = got[0][1]
                            return [a == fv, a != fv, a < fv, a <= fv, a > fv, a >= fv][oc]
                        if r.random() < 0.3:
                            # the literal on the left (Coq's BCL): `lit OP @inner` is `@inner OP' lit` with the ordering mirrored
                            mo = [0, 1, 4, 5, 2, 3][oc]
                            return lit + ['==', '!=', '<', '<=', '>', '>='][mo] + '@' + it, ('cl', isp, mo, [ord(ch) for ch in lit]), t
                        return '@' + it + ['==', '!=', '<', '<=', '>', '>='][oc] + lit, ('c', isp, oc, [ord(ch) for ch in lit]), t
                    if k0 < 0.6:
                        # == / != against a string, boolean or null literal (plain body: no quote of its kind, no backslash)
                        for _t in range(6):
                            it, isp = gen_inner(r, r.choice(kids) if kids else None)
                            if all(st[0] not in (2, 3, 4) for st in isp):
                                break
                        else:
                            it, isp = '', []
                        seen = [x for k1 in kids for x in inner_reach(isp, [k1])]
                        kind = r.choice('ssbn')
                        ne = r.random() < 0.4
                        if kind == 's':
                            strs = [x[1] for x in seen if x[0] == 's']
                            qch = r.choice("'\"")
                            cand = r.choice(strs).decode('utf-8', 'replace') if strs and r.random() < 0.8 else \
                                r.choice(['', 'x', 'a b', '1', 'true', 'null', "x'y", 'a"b', 'a\\b', "'", '\\'])
                            # the body as written: the quote and the backslash escaped; now and then a backslash before an ordinary
                            # character (a character of its own for the grammar, dropped by the unescaper; not before a line feed)
                            body = ''
                            for ch in cand:
                                if ch == qch or ch == '\\':
                                    body += '\\' + ch
                                elif ch != '\n' and r.random() < 0.08:
                                    body += '\\' + ch
                                else:
                                    body += ch
                            litt = qch + body + qch
                            lv = ('s', ord(qch), [ord(ch) for ch in body])
                            same = (lambda got, cand=cand: got[0] == 's' and got[1] == cand.encode('utf-8'))
                        elif kind == 'b':
                            bv = r.random() < 0.5
                            spi = r.randrange(3)
                            litt = [['false', 'False', 'FALSE'], ['true', 'True', 'TRUE']][bv][spi]
                            lv = ('b', 1 if bv else 0, spi)
                            same = (lambda got, bv=bv: got[0] == 'b' and got[1] == bv)
                        else:
                            spi = r.randrange(3)
                            litt = ['null', 'Null', 'NULL'][spi]
                            lv = ('n', spi)
                            same = (lambda got: got[0] == 'z')

                        def tl(x, isp=isp, ne=ne, same=same):
                            got = inner_reach(isp, [x])
                            eq = bool(got) and same(got[0])
                            return (not eq) if ne else eq
                        if r.random() < 0.25:
                            # the literal on the left (Coq's BLL): the same comparison
                            return litt + ('!=' if ne else '==') + '@' + it, ('ll', isp, ne, lv), tl
                        return '@' + it + ('!=' if ne else '==') + litt, ('l', isp, ne, lv), tl
                    it, isp = gen_inner(r, r.choice(kids) if kids else None)
                    if k0 < 0.8:
                        return '@' + it, ('e', isp), (lambda x, isp=isp: bool(inner_reach(isp, [x])))
                    return '!@' + it, ('n', isp), (lambda x, isp=isp: not inner_reach(isp, [x]))
                def ok_(b, x, sibs):
                    return b[2](x, sibs) if getattr(b[2], 'sibs', False) else b[2](x)
                if r.random() < 0.25:
                    # a query with parenthesised sub-queries (Coq's FT): atoms are basic queries or `(` query `)`, `&&` and `||`
                    # associate to the left; no blanks
                    def g_atom(depth):
                        if depth > 0 and r.random() < 0.45:
                            tt, ts, tf = g_or(depth - 1)
                            return '(' + tt + ')', ('p', ts), tf
                        b = one_bq()
                        return b[0], ('b', b[1]), (lambda x, sibs, b=b: ok_(b, x, sibs))

                    def g_and(depth):
                        tt, ts, tf = g_atom(depth)
                        for _ in range(r.choice([0, 0, 1, 1, 2])):
                            t2, s2, f2 = g_atom(depth)
                            tt, ts, tf = tt + '&&' + t2, ('a', ts, s2), (lambda x, sibs, f1=tf, f2=f2: f1(x, sibs) and f2(x, sibs))
                        return tt, ts, tf

                    def g_or(depth):
                        tt, ts, tf = g_and(depth)
                        for _ in range(r.choice([0, 0, 1, 1, 2])):
                            t2, s2, f2 = g_and(depth)
                            tt, ts, tf = tt + '||' + t2, ('o', ts, s2), (lambda x, sibs, f1=tf, f2=f2: f1(x, sibs) or f2(x, sibs))
                        return tt, ts, tf
                    qtext, qtree, qtest = g_or(2)
                    text += '[?(' + qtext + ')]'
                    add_f((15, qtree))
                    cur = [x for v in cur for sibs in [chain_children(v)] for x in sibs if qtest(x, sibs)]
                    continue
                dnf = [[one_bq() for _ in range(r.choice([1, 1, 2] if small else [1, 2, 2, 3]))] for _ in range(r.choice([1, 1, 2] if small else [1, 1, 2, 2, 3]))]
                if all(b[1][0] in 'enc' for conj in dnf for b in conj) and r.random() < 0.6:
                    # the same query written with blanks (Coq's FQS): after `?(`, after `!`, around comparison operators, after every
                    # basic query, after every `&&` and `||`
                    optexts = ['==', '!=', '<', '<=', '>', '>=']
                    gaps = lambda: r.choice([0, 0, 1, 1, 2])

                    def sp_elem(b):
                        tr_ = gaps()
                        if b[1][0] == 'e':
                            return b[0] + ' ' * tr_, ('e', False, 0, b[1][1], tr_)
                        if b[1][0] == 'n':
                            gn = gaps()
                            return '!' + ' ' * gn + b[0][1:] + ' ' * tr_, ('e', True, gn, b[1][1], tr_)
                        lit_ = ''.join(chr(x) for x in b[1][3])
                        op_ = optexts[b[1][2]]
                        pre_ = b[0][:len(b[0]) - len(lit_) - len(op_)]
                        ga, gb = gaps(), gaps()
                        return pre_ + ' ' * ga + op_ + ' ' * gb + lit_ + ' ' * tr_, ('c', b[1][1], ga, b[1][2], gb, b[1][3], tr_)
                    g0 = gaps()
                    stext, sconjs = '', []
                    for ci, conj in enumerate(dnf):
                        gc = gaps() if ci else 0
                        stext += ('||' + ' ' * gc) if ci else ''
                        elems = []
                        for ei, b in enumerate(conj):
                            ge = gaps() if ei else 0
                            et, es = sp_elem(b)
                            stext += (('&&' + ' ' * ge) if ei else '') + et
                            elems.append((ge, es))
                        sconjs.append((gc, elems))
                    text += '[?(' + ' ' * g0 + stext + ')]'
                    add_f((14, g0, sconjs))
                else:
                    text += '[?(' + '||'.join('&&'.join(b[0] for b in conj) for conj in dnf) + ')]'
                    add_f((10, [[b[1] for b in conj] for conj in dnf]))
                cur = [x for v in cur for sibs in [chain_children(v)] for x in sibs if any(all(ok_(b, x, sibs) for b in conj) for conj in dnf)]
                continue
            if r.random() < 0.5:
                # a comparison with a number literal: the inner path must be single-valued (no wildcard, no `..`)
                for _t in range(6):
                    itext, ispec = gen_inner(r, r.choice(kids) if kids else None)
                    if all(st[0] not in (2, 3, 4) for st in ispec):
                        break
                else:
                    itext, ispec = '', []
                nums = [x[1] for k0 in kids for x in inner_reach(ispec, [k0]) if x[0] == 'n' and x[1] == x[1] and abs(x[1]) < 1e15]
                base = r.choice(nums) if nums and r.random() < 0.8 else float(r.randint(-3, 9))
                val = base + r.choice([0, 0, 0, 1, -1, 0.5])
                lit = r.choice(['%g' % val, repr(val), ('%d' % val if val == int(val) else repr(val)), ('+' if val >= 0 else '') + repr(val)])
                try:
                    fv = float(lit)
                except ValueError:
                    lit, fv = '1', 1.0
                oc = r.randrange(6)
                optext = ['==', '!=', '<', '<=', '>', '>='][oc]
                if r.random() < 0.5:
                    # blanks around the operator (Coq's FCS): `@.a > 1`, `@.a  >=1`, ...
                    ga, gb = r.choice([0, 1, 1, 2]), r.choice([0, 1, 1, 3])
                    g0, g1 = r.choice([0, 0, 1, 2]), r.choice([0, 0, 1, 2])
                    text += '[?(' + ' ' * g0 + '@' + itext + ' ' * ga + optext + ' ' * gb + lit + ' ' * g1 + ')]'
                    add_f((12, ispec, g0, ga, oc, gb, g1, [ord(ch) for ch in lit]))
                else:
                    text += '[?(@' + itext + optext + lit + ')]'
                    add_f((8, ispec, oc, [ord(ch) for ch in lit]))

                def keep(x):
                    got = inner_reach(ispec, [x])
                    if not got or got[0][0] != 'n':
                        return oc == 1
                    a = got[0][1]
                    return [a == fv, a != fv, a < fv, a <= fv, a > fv, a >= fv][oc]
                cur = [x for v in cur for x in chain_children(v) if keep(x)]
                continue
            itext, ispec = gen_inner(r, r.choice(kids) if kids else None)
            spaced = r.random() < 0.4
            g0, gn, g1 = (r.choice([0, 1, 2]), r.choice([0, 0, 1, 2]), r.choice([0, 1, 1, 3])) if spaced else (0, 0, 0)
            if r.random() < 0.3:
                # the negation: members from which the inner steps reach nothing (spaced: Coq's FES)
                text += '[?(' + ' ' * g0 + '!' + ' ' * gn + '@' + itext + ' ' * g1 + ')]'
                add_f((13, True, g0, gn, g1, ispec) if spaced else (9, ispec))
                cur = [x for v in cur for x in chain_children(v) if not inner_reach(ispec, [x])]
                continue
            text += '[?(' + ' ' * g0 + '@' + itext + ' ' * g1 + ')]'
            add_f((13, False, g0, 0, g1, ispec) if spaced else (7, ispec))
            cur = [x for v in cur for x in chain_children(v) if inner_reach(ispec, [x])]
            continue
        rec = r.random() < 0.25
        if rec:
            cur = [c1 for v in cur for c1 in chain_below(v)]
        conts = [v for v in cur if v[0] in 'ao']
        k = r.random()
        if k < 0.3 or not conts:
            dotw = r.random() < 0.5
            text += ('..*' if dotw else '..[*]') if rec else ('.*' if dotw else '[*]')
            spec.append((4, 2 if dotw else 3, []) if rec else ((2, []) if dotw else (3, [])))
            nxt = []
            for v in cur:
                if v[0] == 'o':
                    nxt += [x for _, x in sorted(v[1], key=lambda kv: kv[0])]
                elif v[0] == 'a':
                    nxt += list(v[1])
            cur = nxt
            continue
        c0 = r.choice(conts)
        if c0[0] == 'a' and r.random() < 0.35:
            # a union of signed indexes, slices and wildcards (the first subscript not the wildcard)
            subs, texts = [], []
            for j in range(r.randint(1, 3)):
                kind = r.choice('iis' if j == 0 else 'iisw')
                if kind == 'i':
                    n_ = r.randint(-len(c0[1]) - 1, len(c0[1]) + 1)
                    t_ = ('+' if n_ >= 0 and r.random() < 0.15 else '') + str(n_)
                    subs.append(('i', [ord(ch) for ch in t_], n_))
                    texts.append(t_)
                elif kind == 'w':
                    subs.append(('w',))
                    texts.append('*')
                else:
                    bs = [r.choice([None, None, r.randint(-4, 4)]) for _ in range(3)]
                    three = r.random() < 0.6
                    t_ = ':'.join('' if b_ is None else str(b_) for b_ in (bs if three else bs[:2]))
                    subs.append(('s', [ord(ch) for ch in ('' if bs[0] is None else str(bs[0]))], [ord(ch) for ch in ('' if bs[1] is None else str(bs[1]))],
                                 ([ord(ch) for ch in ('' if bs[2] is None else str(bs[2]))] if three else None), bs, three))
                    texts.append(t_)
            text += ('..' if rec else '') + '[' + ','.join(texts) + ']'
            spec.append((4, 6, [sb[:4] if sb[0] == 's' else sb[:2] if sb[0] == 'i' else sb for sb in subs]) if rec else
                        (6, [sb[:4] if sb[0] == 's' else sb[:2] if sb[0] == 'i' else sb for sb in subs]))
            nxt = []
            for v in cur:
                if v[0] != 'a':
                    continue
                ln = len(v[1])
                for sb in subs:
                    if sb[0] == 'i':
                        idxs = py_index_ref(ln, sb[2])
                    elif sb[0] == 'w':
                        idxs = list(range(ln))
                    else:
                        bs, three = sb[4], sb[5]
                        idxs = py_slice_ref(ln, bs[0], bs[1], 1 if (not three or bs[2] is None) else bs[2])
                    nxt += [v[1][j2] for j2 in idxs]
            cur = nxt
            continue
        if c0[0] == 'a':
            n_ = r.randint(0, len(c0[1]) + 1)
            digits = ('0' * r.choice([0, 0, 1])) + str(n_)
            text += ('..' if rec else '') + '[' + digits + ']'
            cps_ = [ord(ch) for ch in digits]
            spec.append((4, 1, cps_) if rec else (1, cps_))
            cur = [v[1][n_] for v in cur if v[0] == 'a' and n_ < len(v[1])]
        else:
            kb = r.choice(c0[1])[0] if c0[1] and r.random() < 0.85 else b'zz9'
            key = kb.decode('utf-8')
            dot = gens.esc_dot(kb)
            style = r.choice("'\"." if dot is not None else "'\"")
            cps_ = [ord(ch) for ch in key]
            if style == '.':
                text += ('..' if rec else '.') + dot.decode('utf-8')
                spec.append((4, 0, cps_) if rec else (0, cps_))
            else:
                body = ''.join('\\' + ch if ch in (style, '\\') else ('\\u%04x' % ord(ch) if ord(ch) < 0x20 else ch) for ch in key)
                text += ('..' if rec else '') + '[' + style + body + style + ']'
                spec.append((4, ord(style), cps_) if rec else (ord(style), cps_))
            nxt = []
            for v in cur:
                if v[0] == 'o':
                    hit = [x for kk, x in v[1] if kk == kb]
                    nxt += hit[-1:]
            cur = nxt
    return doc, text, spec, cur


# =======================================================================================
@register
class C01(EvalProp):
    id = 'C01'
    what = 'returned values / failure'
    rule = ('seeded document-aware path generator (every step kind, filters nested <= 2, functions) x generated '
            'documents (float64 and json.Number); names registered both as a filter and as an aggregate function; a case is '
            'non-trivial when retrieval succeeds with >= 2 values, or succeeds on a path of >= 3 steps')

    def quick_n(self):
        return 8000

    def cases(self, ctx, g, n):
        cs = mk_eval_cases(g, n, 'c', funcs=0.3, acc=0.0, jnum=0.2, alias=0.05, fanout=0.004)
        # filter operands that START with a multi-entry selector (all wildcards: a union on arrays; names and wildcards mixed),
        # over members of every type
        r = g.r
        for i in range(max(30, n // 60)):
            def memb():
                k = r.random()
                if k < 0.35:
                    return ('a', [r.choice([('n', 1.0), ('o', [(b'a', ('n', 2.0))]), ('a', [('n', 3.0)]), ('s', b'x')]) for _ in range(r.randint(0, 3))])
                if k < 0.7:
                    return ('o', [(kk, r.choice([('n', 1.0), ('o', [(b'a', ('n', 2.0))]), ('a', [])])) for kk in r.sample([b'a', b'b', b'c'], r.randint(0, 3))])
                return g.scalar()
            body = ('a', [memb() for _ in range(r.randint(1, 5))])
            head = r.choice(['[*,*]', '[*,*,*]', "['a',*]", "[*,'a']", "['a','b']", '[*,*]', '[0,*]', '[*,0]'])
            tail = r.choice(['', '', '.a', '[0]', '[*]', '..a'])
            form = r.choice(['$[?(@%s%s)]', '$[?(!@%s%s)]', '$[?(@%s%s == 1)]', '$.x[?(@%s%s)]', '$[?(@%s%s)]%s'])
            path = form % ((head, tail) if form.count('%s') == 2 else (head, tail, r.choice(['[0]', '.a', '[*]'])))
            doc = body if '$.x' not in path else ('o', [(b'x', body)])
            cs.append(Case('mo%d' % i, path.encode(), [doc], meta={'family': 'multi-entry-operand-head', 'nsteps': 2}))
        # one name registered both as a filter function and as an aggregate function: `.name()` is the filter function
        for i in range(max(16, n // 300)):
            fname = r.choice(['cnt', 'first', 'arr', 'amax'])        # an aggregate's name also registered as a filter function (which fails)
            aname = r.choice(['twice', 'wrap', 'id', 'tn'])          # a filter function's name also registered as an aggregate (which fails)
            doc = r.choice([('a', [('n', float(k)) for k in range(1, r.randint(2, 4) + 1)]),
                            ('o', [(b'a', ('a', [('n', 1.0), ('n', 2.0), ('n', 3.0)])), (b'b', ('n', 4.0))])])
            nm = r.choice([fname, aname])
            path = r.choice(['$[*].%s()', '$.*.%s()', '$.a[1:].%s().cnt()', '$[?(@.%s() > 0)]', '$.a.%s()', '$..%s()', '$.a[*].%s().%s()' % ('%s', aname)]) % nm
            cs.append(Case('du%d' % i, path.encode(), [doc], gens.FILTER_FUNCS + [fname], gens.AGG_FUNCS + [aname], False, False, 'eval',
                           meta={'family': 'dual-registered-name', 'nsteps': 2}))
        # regular expressions that match the EMPTY string somewhere in every text: `=~` holds of every string member
        for i in range(max(16, n // 300)):
            pat = r.choice(['b*', '^x?', 'z*', '(ab)?', '^(..)?$', 'a*$', '^', '$', 'q?', '(?i)Z*', '[0-9]*', 'x*y*'])
            strs = [('s', r.choice([b'', b'a', b'ab', b'xyz', b'abc', b'b', b'10', b'a b'])) for _ in range(r.randint(2, 5))]
            mixed = strs + [r.choice([('n', 1.0), ('z',), ('b', True), ('a', []), ('o', [])])]
            r.shuffle(mixed)
            form = r.choice(['$[?(@ =~ /%s/)]', '$[?(@.a =~ /%s/)]', '$.*[?(@ =~ /%s/)]', '$[?(@ =~ /%s/ && @ != 1)]', '$..[?(@ =~ /%s/)]'])
            if '.a' in form:
                doc = ('a', [('o', [(b'a', v)]) for v in mixed])
            elif form.startswith('$.*'):
                doc = ('o', [(b'p', ('a', mixed)), (b'q', ('a', strs[:2]))])
            else:
                doc = ('a', mixed) if r.random() < 0.5 else ('o', [(b'k%d' % j, v) for j, v in enumerate(mixed)])
            cs.append(Case('rx0_%d' % i, (form % pat).encode(), [doc], meta={'family': 'regex-matching-the-empty-string', 'nsteps': 2}))
        # tree dumps for a subset: parser model vs the real parser, node by node
        for c in cs[: max(50, n // 10)]:
            c.mode = 'tree'
        return cs

    def project(self, o, c):
        out = {'P': pclass(o.get('P', ''))}
        for k in rkeys(o, 'R'):
            r = o[k]
            out[k] = r if r.startswith('ok:') else ('fail' if cls_of(r) in ('mne', 'tum', 'ff') else r)
        if 'T' in o:
            out['T'] = o['T']
        return out

    def nontrivial(self, c, g):
        r = g.get('R0', '')
        return r.startswith('ok:') and (len(values_of(r)) >= 2 or c.meta.get('nsteps', 0) >= 3)

    def extra(self, ctx, res, g, budget_scale):
        """paths of name / index / wildcard steps whose text is Coq's chain_path (C01_chain_retrieval): the driver confirms
        the text, the expected values come from walking the document in the harness (no syntax tree involved)"""
        r = g.r
        cases, want = [], {}
        for i in range(ctx.n(600, 6000) * budget_scale):
            fl = 0.3 if r.random() < 0.4 else 0.0
            for _try in range(5 if fl else 1):
                if fl and r.random() < 0.4:
                    # members sharing keys, often beside scalar siblings a `$` operand can reach
                    doc, text, spec, cur = gen_chain(g, filters=0.6, roots=0.5, doc=g.filter_doc(), small=True)
                else:
                    doc, text, spec, cur = gen_chain(g, filters=fl, roots=0.25 if r.random() < 0.5 else 0.0)
                if cur or r.random() < 0.25:
                    break
            has_filter = any(st[0] in (7, 8, 9, 10, 11, 12, 13, 14, 15) for st in spec)      # C01_filter_retrieval: the text is Coq's fchain_path
            # (C18_dollar_optional_before_filters: also when filters follow, as long as the first step is a plain one)
            nodollar = spec[0][0] not in (4, 7, 8, 9, 10, 11, 12, 13, 14, 15) and r.random() < 0.25
            if nodollar:
                # C18_dollar_optional: the same path without its leading $ (a first dot name loses its dot, .* becomes *)
                text = text[1:]
                if text.startswith('.'):
                    text = text[1:]
            pad = None
            if not nodollar and r.random() < 0.2:
                # C18_outer_spaces_same_tree (and _with_filters): blanks before and after the path
                pad = (r.randint(0, 3), r.randint(0, 3))
                text = ' ' * pad[0] + text + ' ' * pad[1]
            c = Case('ch%d' % i, text.encode('utf-8'), [doc], meta={'nsteps': len(spec), 'family': 'coq-chain-path'})
            c.keyc = spec
            c.nodollar = nodollar
            c.pad = pad
            want[c.id] = 'ok:[' + ','.join(core.doc_render(v) for v in cur) + ']' if cur else 'fail'
            cases.append(c)
        go, mo = both_sides(cases)
        for c, g_, m in zip(cases, go, mo):
            res.evaluations += 1
            hp = harness_problem(g_) or harness_problem(m)
            if hp:
                res.violation('broken-correspondence', 'harness:' + hp[:60], hp, c)
                continue
            if m.get('KP') != '1':
                res.violation('broken-correspondence', 'harness:chain_path', 'the path sent is not Coq chain_path of its steps', c)
                continue
            a = g_.get('R0', 'P:' + g_.get('P', ''))
            fa = a if a.startswith('ok:') else ('fail' if cls_of(a) in ('mne', 'tum') else a)
            if fa != want[c.id]:
                res.violation('concrete', sig_of(c, 'chain-values'), 'the values of %r are not those reached by walking the document' % (c.path,), c,
                              expected=want[c.id], observed=a)
            b = m.get('R0', 'P:' + m.get('P', ''))
            fb = b if b.startswith('ok:') else ('fail' if cls_of(b) in ('mne', 'tum') else b)
            if fa != fb:
                res.disagreements_checked += 1
                res.violation('concrete', sig_of(c, 'chain-vs-model'), 'values of %r differ from the model' % (c.path,), c, expected=b, observed=a)
            if fa.startswith('ok:') and len(values_of(fa)) >= 2:
                res.nontrivial.add((c.path, core.doc_render(c.docs[0])))
            res.dist['coq-chain-path'] += 1
        # string literals of filters spelled with backslashes before every sort of character (a line feed, a tab, a letter, the
        # quotes, a backslash, non-ASCII): what the literal denotes is decided by the model's unescaping; the members hold the
        # candidate readings (with and without the backslash), so a different reading selects different members
        after = ['\n', '\r', '\t', 'n', 'u', 'x', ' ', '\\', "'", '"', '/', 'é', '0', '(', ']']
        lcases = []
        for i in range(ctx.n(160, 1600) * budget_scale):
            q = r.choice("'\"")
            pieces, readings = [], [[]]
            for _ in range(r.randint(1, 3)):
                if r.random() < 0.7:
                    ch = r.choice(after)
                    if ch == q and r.random() < 0.5:
                        ch = 'n'
                    pieces.append('\\' + ch)
                    readings = [x + [y] for x in readings for y in ('\\' + ch, ch)]
                else:
                    t_ = r.choice(['x', 'ab', 'y', '1'])
                    pieces.append(t_)
                    readings = [x + [t_] for x in readings]
            body = ''.join(pieces)
            vals = list(dict.fromkeys(''.join(x) for x in readings))[:6] + ['x']
            members = [('o', [(b'a', ('s', v.encode('utf-8'))), (b'n', ('n', float(j)))]) for j, v in enumerate(vals)]
            op = r.choice(['==', '==', '!='])
            tpl = r.choice(['$[?(@.a%s%s%s%s)]', '$[?(@.a%s%s%s%s)].n', '$[?(@.n>=0&&@.a%s%s%s%s)]', '$[?(%s%s%s%s@.a)]'[:0] or '$[?(@.a%s%s%s%s||@.n<0)]'])
            text = tpl % (op, q, body, q)
            lcases.append(Case('lb%d' % i, text.encode('utf-8'), [('a', members)], meta={'family': 'literal-backslashes', 'nsteps': 1}))
        go, mo = both_sides(lcases)
        for c, g_, m in zip(lcases, go, mo):
            res.evaluations += 1
            hp = harness_problem(g_) or harness_problem(m)
            if hp:
                res.violation('broken-correspondence', 'harness:' + hp[:60], hp, c)
                continue
            a, b = g_.get('R0', 'P:' + g_.get('P', '')), m.get('R0', 'P:' + m.get('P', ''))
            if a != b:
                res.disagreements_checked += 1
                res.violation('concrete', sig_of(c, 'literal-backslash'), 'the string literal of %r denotes something else than in the model' % (c.path,), c, expected=b, observed=a)
            if a.startswith('ok:'):
                res.nontrivial.add((c.path, 'lb'))
            res.dist['literal-backslashes:' + cls_of(a)] += 1


@register
class C03(EvalProp):
    id = 'C03'
    what = 'outcome class of evaluation'
    rule = ('parsable generated paths (integer literals at the int64 limits included) x documents incl. empty '
            'containers, null/scalar roots, both decodings; filters over arrays of 257..600 elements; one parsed function called '
            '1100 times where nothing matches, then where something does; non-trivial when the path parses and the root is a container')

    def quick_n(self):
        return 4000

    def thorough_n(self):
        return 80000

    def cases(self, ctx, g, n):
        cs = mk_eval_cases(g, n, 'c', funcs=0.35, acc=0.1, jnum=0.3, maxsteps=4, alias=0.03)
        r = g.r
        for c in cs[::7]:
            c.docs = [r.choice([('z',), ('n', 1.0), ('s', b'x'), ('a', []), ('o', []), ('b', True)])]
        # boundary slices
        for i in range(n // 10):
            a = [None, 0, 1, -1, 2 ** 63 - 1, -2 ** 63, 2 ** 31, -2 ** 31 - 1]
            s = ('slice', r.choice(a), r.choice(a), r.choice(a[1:] + ['absent']))
            ln = r.randint(0, 5)
            cs.append(Case('b%d' % i, gens.render_path([('union', [s])]), [('a', [('n', float(k)) for k in range(ln)])]))
        # boundary indexes, alone, in a union and after `..` (a negated MinInt64 is MinInt64 again)
        for i in range(n // 20):
            bi = r.choice([2 ** 63 - 1, -2 ** 63, -(2 ** 63 - 1), 2 ** 31, -2 ** 31, -2 ** 31 - 1, 2 ** 32, -2 ** 32])
            st = r.choice([[('union', [('idx', bi)])], [('union', [('idx', r.randint(-2, 2)), ('idx', bi)])], [('rec', ('union', [('idx', bi)]))],
                           [('wild', 'br'), ('union', [('idx', bi), ('idx', 0)])]])
            ln = r.randint(0, 4)
            el = [('n', float(k)) for k in range(ln)]
            cs.append(Case('bi%d' % i, gens.render_path(st), [r.choice([('a', el), ('a', [('a', el), ('a', [])]), ('o', [(b'k', ('a', el))])])]))
        cs += bigint_filter_cases(r, max(40, n // 40), with_doc=True)
        # undecoded JSON handed in as the document ([]byte, json.RawMessage — well-formed or not): a foreign value like any other; the
        # outcome is a value (for `$`) or one of the three documented errors, never an error of the decoder
        for kind in ('bytes', 'rawjson', 'badraw'):
            for i, path in enumerate([b'$', b'$.a', b'$..a', b'$[0]', b'$[?(@.a)]', b'$.*', b'$.a.b', b'$[0:1]', b'a']):
                cs.append(Case('raw_%s_%d' % (kind, i), path, [('x', kind), ('o', [(b'a', ('x', kind))])], meta={'family': 'undecoded-json-document'}))
        # an object with more than a thousand members, then small objects, through every step that enumerates members (whatever a
        # call keeps for the next one must be good for the next one): every call returns, under the time limit
        for i, path in enumerate([b'$.*', b'$[*]', b'$..*', b'$[?(@ >= 0)]', b'$..x']):
            for big_n in ([1100, 3000] if ctx.quick else [1025, 1100, 2049, 3000, 5000]):
                big = ('o', [(b'k%05d' % k, ('n', float(k))) for k in range(big_n)])
                small = [('o', [(b'a', ('n', 1.0)), (b'b', ('n', 2.0))]), ('o', [(b'x', ('n', 3.0))]), ('o', [(b'p', ('n', 4.0)), (b'q', ('n', 5.0)), (b'r', ('n', 6.0))])]
                cs.append(Case('big%d_%d' % (i, big_n), path, [small[0], big] + small * 4, meta={'family': 'thousand-members-then-few'}))
        # filters over arrays of several hundred elements (verdict lists longer than any block a filter might work in)
        for i in range(max(6, n // 600)):
            ln = r.choice([257, 258, 300, 513, 600])
            doc = ('a', [('o', [(b'a', ('n', float(k % 7)))]) for k in range(ln)])
            path = r.choice(['$[?(@.a >= 1)]', '$[?(@.a)]', '$[?(@.a == 3)].a', '$[?(!@.b)]', '$[?(@.a > 100)]', '$[?(@.a < 2 || @.a > 5)]', '$..[?(@.a == 6)]'])
            cs.append(Case('la%d' % i, path.encode(), [doc], meta={'family': 'long-array-filter'}))
        # one parsed function evaluated more than a thousand times where nothing matches (anything a failing evaluation does
        # not give back is gone after that many calls), then once where something does
        # a user function whose error is of a type that cannot be compared with ==, failing for several values in one retrieval
        for i, path in enumerate([b'$[*].ufail()', b'$..a.ufail()', b'$.*.ufail()', b'$[0:].a.ufail()', b'$[?(@.a)].a.ufail().id()', b'$[*].a.id().ufail()']):
            udoc = ('a', [('o', [(b'a', ('n', float(k)))]) for k in range(1, r.randint(3, 5))])
            cs.append(Case('uf%d' % i, path, [udoc], gens.FILTER_FUNCS, gens.AGG_FUNCS, False, False, 'eval', meta={'family': 'uncomparable-error'}))
        # thirty to fifty nested wildcards whose remaining path matches nothing (every level takes its error path): linear work
        for i, depth in enumerate([30, 40, 48] + [r.randint(30, 50)]):
            nest = ('n', 1.0)
            for lv in range(depth + 1):
                nest = ('a', [nest]) if (lv + i) % 3 else ('o', [(b'k', nest)])
            wc = ''.join(r.choice(['[*]', '.*']) for _ in range(depth))
            for tail in ['.a', '[5]', '']:
                cs.append(Case('nw%d_%s' % (i, tail), ('$' + wc + tail).encode(), [nest], meta={'family': 'nested-failing-wildcards'}))
        two = ('o', [(b'a', ('o', [(b'x', ('n', 1.0))])), (b'b', ('o', [(b'y', ('n', 2.0))]))])
        hit = ('o', [(b'a', ('o', [(b'zzz', ('n', 9.0))])), (b'b', ('o', [(b'y', ('n', 2.0))]))])
        for i, (path, d0, d1) in enumerate([(b'$[?(@.zzz)]', two, hit), (b'$.*[?(@.zzz)]', ('a', [two]), ('a', [('o', [(b'p', hit), (b'q', two)])])),
                                            (b'$..[?(@.zzz > 5)]', ('o', [(b'k', two), (b'l', ('n', 1.0))]), ('o', [(b'k', hit), (b'l', ('n', 1.0))])),
                                            (b'$[?(@.zzz)]', ('o', [(b'a', ('n', 1.0))]), ('o', [(b'a', ('o', [(b'zzz', ('n', 1.0))]))]))]):
            cs.append(Case('many%d' % i, path, [d0] * 1100 + [d1, d0], meta={'family': 'many-failing-calls'}))
        return cs

    def project(self, o, c):
        out = {'P': pclass(o.get('P', ''))}
        for k in rkeys(o, 'R'):
            out[k] = cls_of(o[k])
        return out

    def nontrivial(self, c, g):
        return g.get('P') == 'ok' and c.docs and c.docs[0][0] in ('a', 'o')

    def on_go(self, res):
        def f(c, g):
            if g.get('P') != 'ok':
                return
            for k in rkeys(g, 'R'):
                r = g[k]
                if crashy(r) or cls_of(r) not in ('ok', 'mne', 'tum', 'ff'):
                    res.violation('concrete', sig_of(c, 'eval-not-total'), 'evaluation outcome %s on %r' % (r[:200], c.path), c, observed=r)
                if cls_of(r) == 'ff' and not any(call_fails(x) for x in split_calls(g.get('C' + k[1:], ''))):
                    res.violation('concrete', sig_of(c, 'ff-without-failure'),
                                  'ErrorFunctionFailed although no user function returned an error: %r' % (c.path,), c, observed=g)
        return f


    def extra(self, ctx, res, g, budget_scale):
        """a source value nested a million levels deep, built in memory, walked by `..` in a process whose goroutine stacks are limited
        to 64 MB: the retrieval returns (implementation only; no decoder produces such a value and the model would recurse)"""
        import json
        raws = []
        for i, depth in enumerate([300000, 1000000] if ctx.quick else [300000, 1000000, 2000000]):
            ops = [{'op': 'parse', 'path_hex': hx(p), 'filters': [], 'aggs': [], 'acc': False} for p in [b'$..a', b"$..['a']"]]
            raws.append(RawCase('deep%d' % i, json.dumps({'id': 'deep%d' % i, 'mode': 'deepdoc', 'ops': ops, 'threads': depth}), meta={'depth': depth}))
        for raw, g_ in zip(raws, core.run_go(raws, jobs=2, timeout_ms=120000)):
            res.evaluations += 1
            if g_.get('DEEP', '').startswith('ok:'):
                res.nontrivial.add(raw.id)
                res.dist['deep-document'] += 1
            else:
                res.violation('concrete', 'deepdoc|%d' % raw.meta['depth'],
                              '`$..a` on a value nested %d levels deep (stack limit 64 MB) does not return its one match: %s' % (raw.meta['depth'], str(g_)[:200]),
                              {'scenario': json.loads(raw.text)}, observed=g_)

    def replay(self, ctx, res, v):
        if isinstance(v.get('case'), dict) and 'scenario' in v['case']:
            import json
            sc = v['case']['scenario']
            g_ = core.run_go([RawCase(sc['id'], json.dumps(sc))], jobs=1, timeout_ms=120000)[0]
            print('implementation:', g_)
            if not g_.get('DEEP', '').startswith('ok:'):
                res.violation('concrete', 'replay', 'the deep document is not walked', v['case'])
            return
        replay_generic(self, ctx, res, v, self.project, self.what)


def split_calls(s):
    out, depth, cur = [], 0, ''
    for ch in s:
        if ch in '([{':
            depth += 1
        elif ch in ')]}':
            depth -= 1
        if ch == ';' and depth == 0:
            out.append(cur)
            cur = ''
        else:
            cur += ch
    if cur:
        out.append(cur)
    return out


def call_fails(call):
    """does this logged library call return an error? (mirrors the function library)"""
    m = re.match(r'([FG])\((\w+),(.*)\)$', call, flags=re.S)
    if not m:
        return True
    kind, name, arg = m.groups()
    if name in ('fail', 'afail', 'relay', 'zfail', 'azfail', 'ufail'):
        return True
    if kind == 'F' and name in gens.AGG_FUNCS or kind == 'G' and name in gens.FILTER_FUNCS:
        return True             # a name of the other library: always fails
    if name == 'twice':
        return not arg.startswith('n(')
    if name == 'fstr':
        return arg.startswith('s(')
    if name == 'first':
        return arg == '[]'
    if name == 'amax':
        items = values_of('ok:' + arg) if arg != '[]' else []
        return not any(x.startswith('n(') for x in items)
    return False


@register
class C04(EvalProp):
    id = 'C04'
    what = 'document after the call'
    rule = ('filter-heavy generated paths (== != && || ! over present, missing and $-rooted operands) x documents, '
            'plain and accessor mode; the document is rendered before and after every call; non-trivial when the '
            'path contains a filter and the filtered container has >= 2 members')

    def quick_n(self):
        return 4000

    def thorough_n(self):
        return 80000

    def cases(self, ctx, g, n):
        cs = mk_eval_cases(g, n, 'c', funcs=0.15, acc=0.3, jnum=0.2, filter_heavy=0.85)
        # a second and third call of the same parsed function on other documents: a result buffer that aliases
        # an earlier caller's array is overwritten by the later calls (the runner re-reads every document at the end)
        for c in cs[::2]:
            c.docs = c.docs + [mutate_doc(g.r, c.docs[0]), g.doc(2, False, 0)]
        # documents assembled from sub-slices of ONE backing array (every array's capacity reaches into its neighbours): an append to
        # a slice that belongs to the document would overwrite another array of it
        for k, c in enumerate(cs):
            if k % 5 == 0:
                c.packed = 1 + k % 7
        for i in range(max(40, n // 40)):
            def arr_(lo):
                return ('a', [r0.choice([('n', float(lo + j)), ('o', [(b'x', ('n', float(lo + j)))]), ('a', [('n', float(lo + j))])]) for j in range(r0.randint(1, 3))])
            r0 = g.r
            doc = ('o', [(kk, arr_(10 * j)) for j, kk in enumerate(r0.sample([b'a', b'b', b'c', b'z', b'k'], r0.randint(2, 4)))] + [(b'm', ('o', [(b'x', ('n', 99.0))]))])
            ag = r0.choice(['amax', 'cnt', 'arr', 'first'])
            path = r0.choice(["$['a','b'].%s()" % ag, '$.*.%s()' % ag, '$..x', '$..[0]', '$[*][*]', "$['a','z','b']", '$..*', '$.a.%s()' % ag, '$[?(@[0])]', '$..x.%s()' % ag,
                              "$['a','b','c','z','k'].%s()" % ag, '$[?(@[0])].%s()' % ag, "$['k','z','c','b','a'].%s()" % ag, '$[?(@[0])].%s()' % ag])
            c = Case('pk%d' % i, path.encode(), [doc, doc], [], [ag] if '%s' % ag in path else [], False, False, 'eval', meta={'nsteps': 2, 'family': 'packed-arrays'})
            c.packed = 1 + i % 9
            cs.append(c)
        # function names nobody registered (the names a library might be tempted to supply itself): function-not-found, and the document —
        # unsorted arrays, reached directly and through value groups — is left as it was
        for i, nm in enumerate(['median', 'sort', 'sorted', 'min', 'max', 'sum', 'avg', 'count', 'length', 'size', 'keys', 'values', 'reverse', 'unique', 'first', 'last', 'distinct', 'flatten']):
            udoc = ('o', [(b'a', ('a', [('n', 3.0), ('n', 1.0), ('n', 2.0)])), (b'b', ('a', [('n', 9.0), ('n', 8.0), ('s', b'x'), ('n', 7.0)])), (b'c', ('o', [(b'z', ('n', 2.0)), (b'y', ('n', 1.0))]))])
            for j, tpl in enumerate(['$.a.%s()', '$.*.%s()', '$..a.%s()', '$.b.%s()', '$.c.%s()', '$[?(@.%s() > 0)]']):
                if (i + j) % 2 == 0 or j == 0:
                    cs.append(Case('un%d_%d' % (i, j), (tpl % nm).encode(), [udoc, udoc], meta={'nsteps': 2, 'family': 'unregistered-function-names'}))
        for i in range(n // 8):
            doc = g.doc(3, False, 0)
            path = g.r.choice([b'$[*]', b'$.*', b'$..*', b'$..[*]', b'$.*.*', b'$[*][*]', b'$..a[*]', b'$.list[*]', b'$[0:]', b'$..[0:2]'])
            cs.append(Case('w%d' % i, path, [doc, g.doc(2, False, 0), doc], meta={'nsteps': 2}))
        # functions handed parts of the document itself: an aggregate after a single-valued path receives the document's own
        # array (json.Number and float64 elements, nested arrays); filter functions receive members and containers
        r = g.r
        for i in range(max(40, n // 40)):
            def num():
                x = r.choice(gens.NUM_POOL)
                return ('j', r.choice(gens.JNUM_POOL)) if r.random() < 0.5 else ('n', x)
            arr = ('a', [num() if r.random() < 0.8 else r.choice([('s', b'x'), ('a', [num()]), ('z',)]) for _ in range(r.randint(0, 5))])
            doc = ('o', [(b'prices', arr), (b'nested', ('a', [arr, ('a', [num()])])), (b'one', num())])
            ag = r.choice(gens.AGG_FUNCS)
            ff = r.choice(['id', 'wrap', 'twice', 'tn'])
            path = r.choice(['$.prices.%s()' % ag, '$.nested[0].%s()' % ag, '$.nested[*].%s()' % ag, '$.prices[*].%s()' % ag, '$.prices.%s().%s()' % (ff, ag),
                             '$.nested.%s()' % ag, '$[?(@.%s() > 1)]' % ag, '$.prices.%s()' % ff, '$..prices.%s()' % ag])
            cs.append(Case('fa%d' % i, path.encode(), [doc, doc], [ff], [ag], r.random() < 0.2, meta={'nsteps': 2, 'family': 'functions-on-document-parts'}))
        # members of foreign Go types (typed maps and slices, pointers to containers, undecoded json.RawMessage, ...) with paths that
        # step into them: whether the step succeeds or fails, the member stays what it was
        for j, kind in enumerate(sorted(core.KINDS)):
            x = ('x', kind)
            for i, (path, doc) in enumerate([(b'$.a.b', ('o', [(b'a', x)])), (b'$.a[0]', ('o', [(b'a', x)])), (b'$.*.a', ('o', [(b'k', x), (b'm', ('o', [(b'a', ('n', 1.0))]))])),
                                             (b'$[0].b', ('a', [x])), (b'$[*].b[0]', ('a', [x, x])), (b'$.a.zz9', ('o', [(b'a', x)]))]):
                cs.append(Case('fk%d_%d' % (j, i), path, [doc, doc], acc=(i + j) % 4 == 0, meta={'nsteps': 2, 'family': 'foreign-members'}))
        return cs

    def project(self, o, c):
        # the model's write log (W) is the model-side counterpart of a changed document (M)
        return {'changed': sorted(k[1:] for k in o if re.fullmatch(r'[MW]\d+', k))}

    def nontrivial(self, c, g):
        return b'?(' in c.path and g.get('P') == 'ok'

    def on_go(self, res):
        def f(c, g):
            for k in rkeys(g, 'M'):
                res.violation('concrete', sig_of(c, 'document-modified'),
                              'the document was modified by evaluating %r' % (c.path,), c,
                              expected=core.doc_render(c.docs[int(k[1:])]), observed=g[k])
        return f


# =======================================================================================
def string_cases(ctx, g, n, prefix='s'):
    cases = []
    cfgs = [([], [], False, False), (gens.FILTER_FUNCS, gens.AGG_FUNCS, False, False),
            (gens.FILTER_FUNCS, gens.AGG_FUNCS, True, False), ([], [], False, True)]
    for i, (s, kind) in enumerate(strgen.strings(g, n, ctx.repo)):
        f, a, acc, nocfg = g.r.choice(cfgs) if g.r.random() < 0.5 else cfgs[1]
        cases.append(Case('%s%d' % (prefix, i), s, [], f, a, acc, nocfg, 'eval', meta={'kind': kind}))
    return cases


def exhaustive_string_cases(limit=None):
    cases = []
    for i, s in enumerate(itertools.chain(strgen.exhaustive_comparisons(), strgen.exhaustive_steps(3))):
        if limit and i >= limit:
            break
        cases.append(Case('x%d' % i, s, [], gens.FILTER_FUNCS, gens.AGG_FUNCS, False, False, 'eval', meta={'kind': 'exhaustive'}))
    return cases


DOC_PARSE = ('ok', 'syn', 'arg', 'fnf', 'nsp')


@register
class C02(EvalProp):
    id = 'C02'
    what = 'Parse outcome class'
    trusted = TRUSTED_PARSE
    rule = ('strings <= 256 bytes: grammar-derived paths (respelled), character-level mutations of them and of the '
            'suite paths (read from test_jsonpath_test.go at run time), token soup, arbitrary Unicode, invalid UTF-8; '
            'four configurations, plus names registered as both kinds of function and functions under names no path can spell; chains of 22..30 && / || terms evaluated under the time limit; thorough adds the bounded-exhaustive reduced grammar (all operand x operator x '
            'operand comparisons, all step sequences up to length 3). Each case runs in a worker process with a time '
            'limit. Non-trivial: the string is not rejected at offset 0 (distinct strings counted)')

    def quick_n(self):
        return 20000

    def thorough_n(self):
        return 300000

    RETRIEVE_DOC = ('o', [(b'a', ('a', [('n', 0.0), ('n', 1.0), ('o', [(b'b', ('n', 1.0)), (b'a', ('s', b'x'))]), ('a', [])])),
                          (b'b', ('o', [(b'a', ('a', [])), (b'c', ('z',))])), (b'x', ('n', 1.0)), (b'k', ('b', True))])

    def cases(self, ctx, g, n):
        cs = string_cases(ctx, g, n)
        cs += exhaustive_string_cases(None if not ctx.quick else 2000)
        # Retrieve on the same strings: every third one is also evaluated on a small mixed document
        for c in cs[::3]:
            if not c.docs:
                c.docs = [self.RETRIEVE_DOC]
        # integer texts at the limits of int64 as indexes and slice bounds, on a document where they reach arrays
        lim = ['9223372036854775807', '-9223372036854775808', '-9223372036854775807', '9223372036854775808', '-9223372036854775809', '4294967296', '-4294967296']
        for i, t in enumerate(lim):
            for j, tpl in enumerate(['$.a[%s]', '$..[%s]', '$.a[0,%s]', '$.a[%s:]', '$.a[:%s]', '$.a[::%s]', '$.a[*][%s]', '$..a[%s,1]']):
                cs.append(Case('lim%d_%d' % (i, j), (tpl % t).encode(), [self.RETRIEVE_DOC], meta={'kind': 'int64-limits'}))
        # configurations out of the ordinary: one name registered BOTH as a filter function and as an aggregate function (the path
        # is accepted: the filter function is meant), and functions registered under names no path can spell (an empty name, blanks,
        # dots, parentheses, non-ASCII letters) — Parse of any string, valid or not, still returns one of its documented outcomes
        r = g.r
        probes = [b'$', b'$.a', b'$.a.twice()', b'$.a.cnt()', b'$.*.id().amax()', b'$[?(@.b.cnt() == 1)]', b'$[?(@.a.twice())]', b'$.a.first().first()',
                  b'$.a.nosuch()', b'$.a.()', b'$.a. ()', b'$.a.a.b()', b'$.a.f()()', b'$[', b'', b'$.a.twice(', b'$.a.\xc3\xa9()', b'a.cnt()', b' $.a.amax() ']
        for i in range(max(24, n // 400)):
            both = r.sample(['cnt', 'amax', 'first', 'twice', 'id', 'wrap'], r.randint(1, 3))
            path = r.choice(probes[:9] + [b'$.a.%s()' % nm.encode() for nm in both] + [b'$[?(@.a.%s() == 1)]' % both[0].encode(), b'$.*.%s().%s()' % (both[0].encode(), both[-1].encode())])
            cs.append(Case('dual%d' % i, path, [self.RETRIEVE_DOC], sorted(set(gens.FILTER_FUNCS + both)), sorted(set(gens.AGG_FUNCS + both)), r.random() < 0.2, False, 'eval',
                           meta={'kind': 'name-registered-twice'}))
        odd = ['', ' ', 'a b', 'a.b', '.', 'f()', '()', '\u00e9', 'a,b', "a'b", '$', '@', '*', 'x\n', '-', '_', '0']
        for i in range(max(24, n // 400)):
            fo, ao = r.sample(odd, r.randint(0, 3)), r.sample(odd, r.randint(0, 2))
            if not fo and not ao:
                fo = [r.choice(odd[:9])]
            path = r.choice(probes)
            cs.append(Case('odd%d' % i, path, [self.RETRIEVE_DOC], sorted(set(['twice', 'id'] + fo)), sorted(set(['cnt', 'amax'] + ao)), r.random() < 0.2, False, 'eval',
                           meta={'kind': 'unspellable-function-names'}))
        return cs

    def project(self, o, c):
        out = {'P': pclass(o.get('P', ''))}
        for k in rkeys(o, 'R'):
            out[k] = cls_of(o[k])
        return out

    def nontrivial(self, c, g):
        p = g.get('P', '')
        return not p.startswith('syn:0:')

    def on_go(self, res):
        def f(c, g):
            p = g.get('P', '')
            res.dist['parse:' + pclass(p)] += 1
            res.dist['kind:' + c.meta.get('kind', '?')] += 1
            if pclass(p) not in DOC_PARSE or '!badtext' in p:
                res.violation('concrete', sig_of(c, 'parse-not-total'),
                              'Parse(%r) -> %s' % (c.path, p[:300]), c, observed=p)
            for k in rkeys(g, 'R'):
                if crashy(g[k]) or cls_of(g[k]) not in ('ok', 'mne', 'tum', 'ff'):
                    res.violation('concrete', sig_of(c, 'retrieve-not-total'), 'Retrieve(%r) -> %s' % (c.path, g[k][:200]), c, observed=g[k])
        return f

    def extra(self, ctx, res, g, budget_scale):
        """bounded time: filters nested in filter operands 8..30 levels deep (<= 256 characters) and 65..130 levels deep.  Every level
        re-enters the operand rule from several alternatives, so only a linear-time parser returns; the outcome
        is known by construction.  Implementation only, short time limit: the Coq interpreter has no memo table
        (its theorem bounds rule-call depth, not time)."""
        r = g.r
        cases = []
        for d in sorted(set([8, 10, 12, 14, 16, 20, 24, 30] + [r.randint(9, 30) for _ in range(6)])):
            shapes = [
                (b'$' + b'[?(@' * d + b'.a' + b')]' * d, 'ok'),
                (b'$' + b'[?(@.k' * d + b')]' * d, 'ok'),
                (b'$' + b'[?(@.x' * d + b'==1)]' * d, 'syn'),      # a filter inside a comparison operand: value group
                (b'$' + b'[?(!@.x' * d + b')]' * d, 'ok'),
                (b'$' + b'[?(@' * d + b'.a' + b')]' * d + b'~', 'syn'),
                (b'$' + b'[?(@.x' * d + b' > 1' + b')]' * d, 'ok'),
            ]
            for k, (path, want) in enumerate(shapes):
                if len(path) <= 256:
                    cases.append((Case('deep%d_%d' % (d, k), path, [], [], [], meta={'kind': 'deep-filter', 'depth': d}), want))
        # the same shapes far beyond 256 characters: 65..130 filters open at once (a parser that keeps a stack per open filter
        # must not run into a limit of its own making: the grammar has none)
        for d in sorted(set([65, 66, 80, 128] + [r.randint(65, 130) for _ in range(2)])):
            for k, (path, want) in enumerate([
                    (b'$' + b'[?(@.a' * d + b' == 1' + b')]' * d, 'ok'),
                    (b'$' + b'[?(@.k' * d + b')]' * d, 'ok'),
                    (b'[?(@.a' * d + b')]' * d, 'ok'),
                    (b'$' + b'[?(!@.x' * d + b')]' * d, 'ok'),
                    (b'$' + b'[?(@.x' * d + b'==1)]' * d, 'syn')]):
                cases.append((Case('vdeep%d_%d' % (d, k), path, [], [], [], meta={'kind': 'deep-filter', 'depth': d}), want))
        # long chains of one step kind (<= 256 characters): every step shares the nodes after it with the inner identifiers of
        # a multi-name selector, so anything that walks the tree once per identifier is exponential in the chain length
        for reps in sorted(set([12, 16, 20, 24, 28] + [r.randint(10, 28) for _ in range(3)])):
            chains = [
                (b'$' + b"['a','b']" * reps, 'ok'),
                (b'$..' + b'[*,*]' * min(reps * 2, 50), 'ok'),
                (b'$' + b"['a','b','c']" * (reps * 2 // 3), 'ok'),
                (b'$[?(@' + b"['a','b']" * min(reps, 26) + b')]', 'ok'),
                (b'$' + b'..a' * (reps * 2), 'ok'),
                (b'$' + b'[0,1]' * (reps * 2), 'ok'),
                (b'$' + b'[1:2]' * (reps * 2), 'ok'),
                (b'$' + b'.*' * (reps * 4), 'ok'),
            ]
            for k, (path, want) in enumerate(chains):
                if len(path) <= 256:
                    cases.append((Case('chain%d_%d' % (reps, k), path, [], [], [], meta={'kind': 'long-chain', 'depth': reps}), want))
        # long chains of `||` and `&&` (<= 256 characters) whose early terms hold for some member, evaluated on a small array: parsing
        # AND evaluation return in time (a left-nested chain that evaluates an operand twice per level takes 2^n steps)
        odoc = ('a', [('o', [(b'a', ('n', 1.0)), (b'b', ('n', 2.0))]), ('o', [(b'a', ('n', 7.0))]), ('n', 3.0)])
        for nterms in sorted(set([24, 28, 30] + [r.randint(22, 30) for _ in range(2)])):
            for k, (term, glue) in enumerate([(b'@.a==%d', b'||'), (b'@.a>%d', b'||'), (b'@.b', b'||'), (b'@.a<%d', b'&&'), (b'!@.z%d', b'&&')]):
                path = b'$[?(' + glue.join((term % (j + 1)) if b'%d' in term else term for j in range(nterms)) + b')]'
                if len(path) <= 256:
                    cases.append((Case('orch%d_%d' % (nterms, k), path, [odoc], [], [], meta={'kind': 'long-logical-chain', 'depth': nterms}), 'ok'))
        outs = core.run_go([c for c, _ in cases], timeout_ms=4000)
        for (c, want), o in zip(cases, outs):
            res.evaluations += 1
            p = o.get('P', '')
            res.dist['deep:' + pclass(p)] += 1
            if c.meta['kind'] == 'long-logical-chain' and pclass(p) == 'ok' and cls_of(o.get('R0', '')) not in ('ok', 'mne'):
                res.violation('concrete', sig_of(c, 'evaluation-not-bounded'), 'a filter of %d terms (%d characters) on a three-element array -> %s within 4 s'
                              % (c.meta['depth'], len(c.path), o.get('R0', '')[:100]), c, expected='a result or member-did-not-exist', observed=o.get('R0', ''))
                continue
            if pclass(p) == want:
                res.nontrivial.add(c.path)
            else:
                res.violation('concrete', sig_of(c, 'parse-not-bounded'),
                              'Parse of a %d-level %s (%d characters) -> %s, expected %s within 4 s'
                              % (c.meta['depth'], {'deep-filter': 'nested filter', 'long-logical-chain': 'chain of && / || terms (parsed and evaluated)'}.get(c.meta['kind'], 'chain of selectors'), len(c.path), p[:100], want), c, expected=want, observed=p)


def bigint_filter_cases(r, n, with_doc=False):
    """filters whose number literal is written with digits only and lies at or beyond the int64 / uint64 limits (a literal is
    a float for the library: every such text is a valid number), next to index and slice subscripts of the same size (which
    must fit int64)"""
    mags = [2 ** 63 - 1, 2 ** 63, 2 ** 63 + 1, 10 ** 19, 2 ** 64 - 1, 2 ** 64, 2 ** 64 + 1, 10 ** 20, 10 ** 30, 10 ** 308, 10 ** 309,
            2 ** 53, 2 ** 53 + 1, 999999999999999999999]
    out = []
    for i in range(n):
        m = r.choice(mags)
        lit = r.choice(['', '', '-', '+']) + ('0' * r.choice([0, 0, 1, 2])) + str(m)
        op = r.choice(['<', '<=', '>', '>=', '==', '!='])
        other = r.choice(['@.a', '@', '$.a', '@.b.c'])
        k = r.random()
        if k < 0.4:
            path = '$[?(%s %s %s)]' % (other, op, lit)
        elif k < 0.8:
            path = '$[?(%s %s %s)]' % (lit, op, other)
        elif k < 0.9:
            path = '$[%s]' % lit
        else:
            path = '$[%s:%s]' % (lit, r.choice(['', lit, '1']))
        fm = float(m) if m < 10 ** 308 else 1e308
        docs = [('a', [('o', [(b'a', ('n', fm))]), ('o', [(b'a', ('n', 1.0))]), ('n', fm), ('n', -fm)])] if with_doc else []
        out.append(Case('big%d' % i, path.encode(), docs, meta={'family': 'bigint-literal', 'nsteps': 1}))
    return out


@register
class C17(EvalProp):
    id = 'C17'
    what = 'accept/reject, error position and near'
    trusted = TRUSTED_PARSE
    rule = ('the C02 string generators; the generated parser is compared with the Coq PEG interpreter running the '
            'grammar regenerated from jsonpath.peg (accept/reject, error type, position, argument text; tree dumps for '
            'accepted paths); `near` must be the rest of the path from the reported character. Non-trivial: rejected '
            'at an offset > 0, or non-ASCII before the offset, or accepted')

    def quick_n(self):
        return 20000

    def thorough_n(self):
        return 300000

    def cases(self, ctx, g, n):
        cs = string_cases(ctx, g, n)
        for c in cs:
            if g.r.random() < 0.3:
                c.mode = 'tree'
        cs += exhaustive_string_cases(2000 if ctx.quick else None)
        cs += bigint_filter_cases(g.r, 150 if ctx.quick else 1500)
        return cs

    def project(self, o, c):
        out = {'P': o.get('P', '')}
        if 'T' in o:
            out['T'] = o['T']
        return out

    def nontrivial(self, c, g):
        p = g.get('P', '')
        return not p.startswith('syn:0:')

    def extra(self, ctx, res, g, budget_scale):
        """C17_garbage_after_path_from_text: a valid path of steps and existence filters (its text is Coq's fchain_path: the
        driver confirms it on the path alone) followed by a symbol that can neither continue it nor start a function, then
        anything: `unrecognized input` at exactly the offset of that symbol, near = the rest from there"""
        r = g.r
        closers = [c for c in range(33, 127) if not chr(c).isalnum() and chr(c) not in '.[\\(-_ ']
        pairs = []
        for i in range(ctx.n(300, 3000) * budget_scale):
            doc, text, spec, cur = gen_chain(g, filters=0.2 if r.random() < 0.5 else 0.0)
            tail = chr(r.choice(closers)) + ''.join(r.choice(" .[]()'\"@$*?!=<>&|,:ab01\\~\u00e9\U0001F600") for _ in range(r.randint(0, 6)))
            ok_case = Case('gp%d' % i, text.encode('utf-8'), [], meta={'family': 'garbage-after-path', 'nsteps': len(spec)})
            ok_case.keyc = spec
            bad = Case('gb%d' % i, (text + tail).encode('utf-8'), [], meta={'family': 'garbage-after-path', 'nsteps': len(spec)})
            pairs.append((ok_case, bad, len(text), tail))
        flat = [c for a, b, _, _ in pairs for c in (a, b)]
        go, mo = both_sides(flat)
        for k, (a, b, npre, tail) in enumerate(pairs):
            res.evaluations += 1
            ga, ma, gb, mb = go[2 * k], mo[2 * k], go[2 * k + 1], mo[2 * k + 1]
            hp = harness_problem(ga) or harness_problem(ma) or harness_problem(gb) or harness_problem(mb)
            if hp:
                res.violation('broken-correspondence', 'harness:' + hp[:60], hp, b)
                continue
            if ma.get('KP') != '1':
                res.violation('broken-correspondence', 'harness:fchain_path', 'the path sent is not Coq fchain_path of its steps', a)
                continue
            want = 'syn:%d:unrecognized' % npre
            if gb.get('P') != want or unhx(gb.get('X', '-')) != tail.encode('utf-8') or mb.get('P') != want:
                res.violation('concrete', sig_of(b, 'garbage-offset'),
                              'a valid path followed by %r: unrecognized input at offset %d with the rest as excerpt' % (tail, npre), b,
                              expected={'P': want, 'X': hx(tail.encode('utf-8'))}, observed={'P': gb.get('P'), 'X': gb.get('X'), 'model': mb.get('P')})
            res.nontrivial.add(b.path)
            res.dist['garbage-after-path'] += 1
        # paths longer than 65535 characters (implementation only: the extracted interpreter keeps no memo table and is not made
        # for this size; the outcomes are known by construction): a union of n zeros on a one-element array returns n values,
        # and the same text with a second `]` is rejected exactly there
        for n_ in sorted(set([33001, 40000] + ([r.randint(33000, 36000)] if not ctx.quick else []))):
            body = b'$[' + b','.join([b'0'] * n_) + b']'
            lc = [Case('long_ok_%d' % n_, body, [('a', [('n', 1.0)])], meta={'family': 'long-path'}),
                  Case('long_bad_%d' % n_, body + b']', [], meta={'family': 'long-path'})]
            for c, g_ in zip(lc, core.run_go(lc)):
                res.evaluations += 1
                hp = harness_problem(g_)
                if hp:
                    res.violation('concrete', sig_of(c, 'long-path'), 'a path of %d characters: %s' % (len(c.path), hp[:80]), c, observed=hp[:200])
                    continue
                if c.id.startswith('long_ok'):
                    r0 = g_.get('R0', '')
                    if g_.get('P') != 'ok' or not r0.startswith('ok:[') or r0.count('n(1,0)') != n_:
                        res.violation('concrete', sig_of(c, 'long-path'), 'a union of %d zeros (%d characters) on [1] returns that many values' % (n_, len(c.path)), c,
                                      expected='ok: %d values' % n_, observed=(g_.get('P', '') + ' ' + r0[:80]))
                else:
                    want = 'syn:%d:unrecognized' % len(body)
                    if g_.get('P') != want or unhx(g_.get('X', '-')) != b']':
                        res.violation('concrete', sig_of(c, 'long-path'), 'the same text followed by `]`: unrecognized input at offset %d' % len(body), c,
                                      expected=want, observed=g_.get('P', ''))
                res.dist['long-path'] += 1
        # the grammar of the PINNED tree (coq/GrammarPinned.v, the one the theorems were proved for): the implementation must
        # accept and reject as that grammar does.  On the current tree it is the regenerated grammar (GrammarPinnedEq.v), so this
        # repeats the main comparison; when jsonpath.peg and the generated parser are changed together the regenerated model
        # follows them, and this comparison is what exhibits a string whose acceptance changed
        pcs = exhaustive_string_cases(2000 if ctx.quick else None) + string_cases(ctx, g, ctx.n(2500, 30000) * budget_scale, prefix='pg')
        for c in pcs:
            c.id = 'pin_' + c.id
            c.pinned = True
        go, mo = both_sides(pcs)
        for c, g_, m in zip(pcs, go, mo):
            res.evaluations += 1
            hp = harness_problem(g_) or harness_problem(m)
            if hp:
                res.violation('broken-correspondence', 'harness:' + hp[:60], hp, c)
                continue
            if g_.get('P', '') != m.get('P', ''):
                res.disagreements_checked += 1
                res.violation('concrete', sig_of(c, 'pinned-grammar'), 'Parse(%r) differs from what the grammar of the pinned tree says' % (c.path,), c,
                              expected=m.get('P', ''), observed=g_.get('P', ''))
            res.dist['pinned-grammar'] += 1

    def on_go(self, res):
        def f(c, g):
            p = g.get('P', '')
            if p.startswith('syn:'):
                pos = int(p.split(':')[1])
                offs = core.rune_byte_offsets(c.path)
                if pos > len(offs) - 1:
                    res.violation('concrete', sig_of(c, 'position-outside'), 'position %d outside %r' % (pos, c.path), c, observed=g)
                    return
                want = c.path[offs[pos]:]
                if unhx(g.get('X', '-')) != want:
                    res.violation('concrete', sig_of(c, 'near-wrong'),
                                  'near is not the rest of the path from character %d of %r' % (pos, c.path), c,
                                  expected=hx(want), observed=g.get('X'))
                if any(b >= 0x80 for b in c.path[:offs[pos]]):
                    res.dist['nonascii-before-offset'] += 1
        return f


# =======================================================================================
def py_slice_ref(n, s, e, t):
    if t == 0:
        return []
    return list(range(n))[slice(s, e, t)]


def py_index_ref(n, i):
    if 0 <= i < n:
        return [i]
    if -n <= i < 0:
        return [i + n]
    return []


def fmt_bound(x):
    return b'' if x is None else str(x).encode()


@register
class C11(Prop):
    id = 'C11'
    rule = ('`$[s:e:t]` / `$[n]` on arrays whose elements are their own indices; quick: a seeded sample of the small '
            'scope (s,e,t in {omitted} U [-7..7], len 0..6) plus every bound drawn from the boundary magnitudes '
            '{+-2^31, +-(2^63-1), -2^63, +-len, +-(len+1)}; thorough: the whole small scope (exhaustive). Expected '
            'values come from Python\'s own slice/range and from the Coq model; unions of 2..4 plain indexes in ascending, '
            'descending and arbitrary order, some beyond either end. Non-trivial: the selection is non-empty '
            'or a bound was clamped')
    trusted = ['coq/Slice.v: hand-written model of syntax_subscript_*.go (64-bit wrap explicit), tied to the code by the '
               'correspondence check', 'Python list slicing as the independent reference']

    def run(self, ctx, res, budget_scale=1, seed_offset=0):
        r = random.Random(ctx.seed + seed_offset)
        small = [None] + list(range(-7, 8))
        combos = []
        if ctx.quick:
            for _ in range(2500 * budget_scale):
                combos.append((r.randint(0, 6), r.choice(small), r.choice(small), r.choice(small + ['absent'])))
        else:
            for n in range(0, 7):
                for s, e, t in itertools.product(small, small, small + ['absent']):
                    combos.append((n, s, e, t))
            res.exhaustive = True
        for n in range(0, 7):
            big = [2 ** 31, -2 ** 31, 2 ** 63 - 1, -(2 ** 63 - 1), -2 ** 63, n, -n, n + 1, -n - 1, None, 1, -1]
            if ctx.quick:
                for _ in range(120 * budget_scale):
                    combos.append((n, r.choice(big), r.choice(big), r.choice(big)))
            else:
                for s, e, t in itertools.product(big, repeat=3):
                    combos.append((n, s, e, t))
        cases = load_corpus(self.id, ctx.root) if seed_offset == 0 else []
        ncorp = len(cases)
        expect = [None] * ncorp
        for k, (n, s, e, t) in enumerate(combos):
            text = b'$[' + fmt_bound(s) + b':' + fmt_bound(e) + (b'' if t == 'absent' else b':' + fmt_bound(t)) + b']'
            cases.append(Case('s%d' % k, text, [('a', [('n', float(i)) for i in range(n)])]))
            # the text is Coq's chain_path of one slice step (C11_slice_from_text): the driver confirms it
            cases[-1].keyc = [(5, list(fmt_bound(s)), list(fmt_bound(e)), None if t == 'absent' else list(fmt_bound(t)))]
            expect.append(py_slice_ref(n, s, e, 1 if t in ('absent', None) else t))
        idxs = list(range(-9, 10)) + [2 ** 31, -2 ** 31, 2 ** 63 - 1, -2 ** 63, -(2 ** 63 - 1)]
        for n in range(0, 7):
            for i in idxs:
                cases.append(Case('i%d_%d' % (n, i), b'$[%d]' % i, [('a', [('n', float(k)) for k in range(n)])]))
                expect.append(py_index_ref(n, i))
        # the same numbers in other spellings: a sign before zero, a plus sign, leading zeros — a bound is the NUMBER written
        # (`-0` is 0: it does not count from the end; `010` is ten)
        spellings = ['-0', '+0', '-00', '00', '+1', '01', '-01', '+2', '002', '-2', '010', '-010', '+03', '08', '-09', '']
        for k in range((400 if ctx.quick else 4000) * budget_scale):
            n = r.randint(0, 12)
            arr = [('a', [('n', float(i)) for i in range(n)])]
            if r.random() < 0.3:
                sp = r.choice(spellings[:-1])
                cases.append(Case('zi%d' % k, ('$[%s]' % sp).encode(), arr))
                # digits only: an index step; with a sign: the one-entry union the grammar reads it as (C11_union_from_text)
                cases[-1].keyc = [(1, [ord(ch) for ch in sp])] if sp.isdigit() else [(6, [('i', [ord(ch) for ch in sp])])]
                expect.append(py_index_ref(n, int(sp)))
                continue
            ss, se = r.choice(spellings), r.choice(spellings)
            st = r.choice(spellings + ['absent', 'absent'])
            text = '$[%s:%s%s]' % (ss, se, '' if st == 'absent' else ':' + st)
            cases.append(Case('zs%d' % k, text.encode(), arr))
            cases[-1].keyc = [(5, [ord(ch) for ch in ss], [ord(ch) for ch in se], None if st == 'absent' else [ord(ch) for ch in st])]
            val = lambda x: None if x == '' else int(x)
            expect.append(py_slice_ref(n, val(ss), val(se), 1 if st in ('absent', '') else int(st)))
        # the same subscript node applied to several arrays in one retrieval (and twice by one parsed function)
        g2 = gens.G(ctx.seed * 3 + seed_offset + 11)
        for k in range(ctx.n(600, 6000) * budget_scale):
            doc, steps = gens.nested_arrays_family(g2)
            if len(steps) == 2 and steps[0][0] == 'union' and steps[1][0] == 'union' and doc[0] == 'a':
                # chained subscripts on a matrix: rows by the first, elements of every row by the second
                def pick(lst, subs):
                    out = []
                    for sb in subs:
                        ix = py_index_ref(len(lst), sb[1]) if sb[0] == 'idx' else \
                            py_slice_ref(len(lst), sb[1], sb[2], 1 if sb[3] in ('absent', None) else sb[3])
                        out += [lst[j] for j in ix]
                    return out
                want = []
                for row in pick(doc[1], steps[0][1]):
                    want += [x[1] for x in pick(row[1], steps[1][1])]
                cases.append(Case('m%d' % k, gens.render_path(steps), [doc, doc]))
                expect.append(want)
                continue
            if steps[0][0] not in ('wild',) or doc[0] != 'a':
                continue
            sub = steps[1][1][0]
            if len(steps[1][1]) != 1:
                continue
            want = []
            for arr in doc[1]:
                n_ = len(arr[1])
                vals = [x[1] for x in arr[1]]
                idx = py_index_ref(n_, sub[1]) if sub[0] == 'idx' else py_slice_ref(n_, sub[1], sub[2], 1 if sub[3] in ('absent', None) else sub[3])
                want += [vals[j] for j in idx]
            cases.append(Case('n%d' % k, gens.render_path(steps), [doc, doc]))
            expect.append(want if True else None)
        # a slice directly after `..`: it is applied to every array below, each with its own length — bounds that lie outside the
        # shorter arrays are clamped there as everywhere (the text is Coq's chain_path of one `..[s:e:t]` step)
        for k in range(ctx.n(200, 2000) * budget_scale):
            lens = [r.randint(0, 8) for _ in range(r.randint(2, 4))]
            names_ = [b'a', b'b', b'c', b'd'][:len(lens)]
            arrs = [('a', [('n', float(i)) for i in range(ln)]) for ln in lens]
            doc = ('o', [(names_[0], arrs[0]), (names_[1], ('o', [(b'x', arrs[1])]))] + [(nm, ar) for nm, ar in zip(names_[2:], arrs[2:])])
            order = [lens[0], lens[1]] + lens[2:]            # pre-order: members in ascending key order
            sb = [r.choice([None, None] + list(range(-9, 10))), r.choice([None, None] + list(range(-9, 10))), r.choice(['absent', 'absent', 1, 2, 3, -1, -2, -3, None])]
            fb = lambda x: b'' if x is None else b'%d' % x
            text = b'$..[' + fb(sb[0]) + b':' + fb(sb[1]) + (b'' if sb[2] == 'absent' else b':' + fb(sb[2])) + b']'
            c = Case('rs%d' % k, text, [doc, doc])
            c.keyc = [(4, 5, list(fb(sb[0])), list(fb(sb[1])), None if sb[2] == 'absent' else list(fb(sb[2])))]
            cases.append(c)
            want = []
            for ln in order:
                want += py_slice_ref(ln, sb[0], sb[1], 1 if sb[2] in ('absent', None) else sb[2])
            expect.append(want)
        # unions of plain indexes in ascending, descending and arbitrary order, some beyond either end of the array: every
        # subscript selects on its own, whatever the others do
        for k in range(ctx.n(300, 3000) * budget_scale):
            n = r.randint(0, 5)
            ix = [r.randint(-n - 3, n + 2) for _ in range(r.randint(2, 4))]
            o = r.random()
            if o < 0.5:
                ix.sort()
            elif o < 0.65:
                ix.sort(reverse=True)
            cases.append(Case('u%d' % k, ('$[%s]' % ','.join(str(i) for i in ix)).encode(), [('a', [('n', float(i)) for i in range(n)])]))
            expect.append([j for i in ix for j in py_index_ref(n, i)])
        go, mo = both_sides(cases)
        for c, g, m, want in zip(cases, go, mo, expect):
            res.evaluations += 1
            hp = harness_problem(g) or harness_problem(m)
            if hp:
                res.violation('broken-correspondence', 'harness:' + hp[:60], hp, c)
                continue
            gr, mr = g.get('R0', 'P:' + g.get('P', '')), m.get('R0', 'P:' + m.get('P', ''))
            if c.keyc and m.get('P') == 'ok' and m.get('KP') != '1':
                res.violation('broken-correspondence', 'harness:chain_path', 'the slice text sent is not Coq chain_path of its step', c)
                continue
            if want is not None:
                exp = 'ok:[' + ','.join(core.render_num(float(i)) for i in want) + ']' if want else 'mne'
                got = gr if gr.startswith('ok:') else cls_of(gr)
                if len(c.docs) == 2 and g.get('R1') != g.get('R0'):
                    res.violation('concrete', sig_of(c, 'slice-history'), 'the second call of the parsed function %r selects differently' % (c.path,), c,
                                  expected=g.get('R0'), observed=g.get('R1'))
                if got != exp:
                    res.violation('concrete', sig_of(c, 'slice-differs-from-python'),
                                  '%r on %s: Python selects %s' % (c.path, core.doc_json_text(c.docs[0])[:80], want), c,
                                  expected=exp, observed=gr)
                if want or (len(c.docs[0][1]) > 0):
                    res.nontrivial.add((c.path, len(c.docs[0][1])))
            if gr != mr:
                res.disagreements_checked += 1
                res.violation('concrete', sig_of(c, 'slice-model'), 'implementation and model differ on %r' % (c.path,), c,
                              expected=mr, observed=gr)
            res.dist[cls_of(gr)] += 1
            if len(res.samples) < 6 and want:
                res.sample({'path': c.path.decode(), 'len': len(c.docs[0][1]), 'python': want, 'observed': gr})

    def replay(self, ctx, res, v):
        replay_generic(self, ctx, res, v, lambda o, c: {k: o[k] for k in o if k[0] in 'PR'}, 'slice')


# =======================================================================================
def mutate_doc(r, d, p=0.3):
    """a variant of a document: scalars changed, members dropped — flips filter outcomes"""
    t = d[0]
    if t == 'a':
        items = [mutate_doc(r, x, p) for x in d[1] if r.random() > p * 0.3]
        return ('a', items)
    if t == 'o':
        return ('o', [(k, mutate_doc(r, v, p)) for k, v in d[1] if r.random() > p * 0.3])
    if r.random() < p:
        if t == 'n':
            return ('n', r.choice(gens.NUM_POOL))
        if t == 'j':
            return ('j', r.choice(gens.JNUM_POOL))
        if t == 's':
            return ('s', r.choice(gens.STR_POOL))
        if t == 'b':
            return ('b', not d[1])
        return r.choice([('z',), ('n', 1.0), ('s', b'x')])
    return d


def reroll_refs(r, d):
    """the same document with its top-level scalars replaced by scalars found among the members' values"""
    if d[0] != 'o':
        return d
    pool = []

    def walk(x):
        if x[0] == 'a':
            for y in x[1]:
                walk(y)
        elif x[0] == 'o':
            for _, y in x[1]:
                walk(y)
        else:
            pool.append(x)
    walk(d)
    pool = pool or [('n', 1.0)]
    return ('o', [(k, (r.choice(pool) if v[0] not in ('a', 'o') and r.random() < 0.8 else v)) for k, v in d[1]])


def hist_json(cid, ops):
    import json
    return json.dumps({'id': cid, 'mode': 'hist', 'ops': ops})


class RawCase:
    """a case whose Go-side JSON is given explicitly (histories, scenarios)"""

    def __init__(self, cid, text, meta=None):
        self.id, self.text, self.meta = cid, text, meta or {}

    def go_json(self):
        return self.text


def op_cfg(c):
    return {'path_hex': hx(c.path), 'filters': c.filters, 'aggs': c.aggs, 'acc': c.acc, 'nocfg': c.nocfg}


@register
class C05(Prop):
    id = 'C05'
    rule = ('one parsed function called on a history of <= 8 documents (variants of one document so that consecutive '
            'calls flip filter outcomes and failures), interleaved with unrelated Retrieve calls that recycle the pooled '
            'buffers; every call is compared with a fresh Retrieve of the same path on that document and with the model; '
            'earlier result slices are re-read at the end; the package-level lists are read at the end; histories in which a user function '
            'panics inside a filter operand (the runner recovers) before ordinary calls. Non-trivial: >= 2 '
            'distinct outcomes inside one history')
    trusted = TRUSTED_EVAL + ['identity of returned Go slices (aliasing with recycled buffers) is observed dynamically only']

    def run(self, ctx, res, budget_scale=1, seed_offset=0):
        init_globals()
        g = gens.G(ctx.seed * 31 + 5 + seed_offset)
        r = g.r
        n = ctx.n(1500, 12000) * budget_scale
        base = load_corpus(self.id, ctx.root) if seed_offset == 0 else []
        for i in range(n):
            c = mk_eval_cases(g, 1, 'h%d_' % i, funcs=0.3, acc=0.1, jnum=0.2, filter_heavy=0.7, families=0.4)[0]
            d0 = c.docs[0]
            docs = [d0]
            for _ in range(r.randint(2, 7)):
                k = r.random()
                if c.meta.get('family') == 'refs' and k < 0.7:
                    docs.append(reroll_refs(r, d0))
                else:
                    docs.append(mutate_doc(r, d0) if k < 0.6 else (d0 if k < 0.8 else g.doc(3, False, 0)))
            c.docs = docs
            base.append(c)
        # a call that returns more than a thousand values, then ordinary calls (pooled buffers of unusual size)
        for i in range(max(2, n // 300)):
            big = ('a', [('n', float(k)) for k in range(r.choice([1100, 1500, 2100]))])
            small = ('a', [('n', 1.0), ('n', 2.0)])
            path = r.choice([b'$[*]', b'$..*', b'$[0:]', b'$[?(@ >= 0)]'])
            base.append(Case('big%d' % i, path, [small, big, small, ('o', [(b'a', ('n', 1.0))]), small]))
        # objects with many members drawn from one key pool: a larger one, then a smaller one, then one in between
        # (a recycled key buffer keeps a stale tail), and dense random subsets; enumerated by wildcard, filter, descent
        for i in range(max(20, n // 25)):
            pool = set()
            while len(pool) < 12:
                pool.add(r.choice(['a', 'k', 'z']).encode() + b'%02d' % r.randint(0, 11))
            pool = sorted(pool | set(r.choice(['a', 'k', 'z']).encode() + b'%02d' % r.randint(0, 11) for _ in range(r.randint(0, 6))))
            def sub(keys):
                return ('o', [(k, ('n', float(pool.index(k)))) for k in r.sample(keys, len(keys))])
            docs = []
            for _ in range(r.randint(1, 2)):
                big = r.sample(pool, r.randint(min(10, len(pool)), len(pool)))
                sbig = sorted(big)
                small = sorted(r.sample(big, r.randint(8, max(8, len(big) - 2))))
                nmid = r.randint(len(small), len(big))
                spliced = small + sbig[len(small):nmid]                  # what a stale tail would expose
                mid = spliced if r.random() < 0.6 else sorted(r.sample(big, nmid))
                docs += [sub(big), sub(small), sub(list(dict.fromkeys(mid)))]
            docs += [sub(r.sample(pool, r.randint(8, len(pool)))) for _ in range(r.randint(0, 2))]
            path = r.choice([b'$.*', b'$[*]', b'$..*', b'$[?(@ >= 0)]', b'$[?(@)]', b"$['a00','k01',*]"][:5])
            base.append(Case('kp%d' % i, path, docs[:8], meta={'family': 'key-pool'}))
        # a comparison between two paths whose `$` operand is a scalar in one document and a container in the next (whatever a
        # node decides from the first document it sees must not be kept), and unions of plain indexes over arrays of growing
        # and shrinking lengths (the positions a subscript selects depend on the array at hand, every time)
        for i in range(max(10, n // 120)):
            ys = [('n', 1.0), ('a', [('n', 1.0), ('n', 2.0)]), ('o', [(b'k', ('n', 1.0))]), ('s', b's'), ('b', True), ('z',)]

            def mk(y):
                return ('o', [(b'y', y), (b'items', ('a', [('o', [(b'x', x), (b'id', ('n', float(j)))]) for j, x in enumerate(ys)]))])
            docs = [mk(r.choice([ys[0], ys[3], ys[4]]))] + [mk(r.choice(ys)) for _ in range(r.randint(2, 6))]
            path = r.choice([b'$.items[?(@.x == $.y)].id', b'$.items[?(@.x != $.y)].id', b'$.items[?($.y == @.x)]', b'$.items[?(@.x == $.y || @.id > 4)].id'])
            base.append(Case('pt%d' % i, path, docs, meta={'family': 'operand-type-history'}))
        for i in range(max(10, n // 120)):
            ix = r.sample(range(0, 6), r.randint(2, 4))
            lens = [r.randint(1, 3)] + [r.randint(1, 8) for _ in range(r.randint(2, 5))]
            docs = [('a', [('n', float(10 * j + k)) for k in range(ln)]) for j, ln in enumerate(lens)]
            tpl = r.choice(['$[%s]', '$[%s]', '$..[%s]', '$[%s].id()'])
            path = (tpl % ','.join(str(k) for k in ix)).encode()
            if tpl.startswith('$..'):
                docs = [('a', [d, ('a', [('n', 7.0)])]) for d in docs]
            base.append(Case('ul%d' % i, path, docs, ['id'] if 'id()' in tpl else [], meta={'family': 'union-length-history'}))
        # re-entrancy: while a call runs, a user function calls the SAME parsed function on another document
        reenter = {}
        for i in range(max(20, n // 25)):
            lens = r.sample(range(1, 9), 3)
            docs = [('a', [('n', float(10 * j + k)) for k in range(ln)]) for j, ln in enumerate(lens)]
            path = r.choice([b'$[-3:].id()', b'$[::-1].id()', b'$[-2:].id()', b'$[1:].id()', b'$[*].id()', b'$[0,-1].id()',
                             b'$[?(@.id() > 3)]', b'$..[-1:].id()', b'$[:-1].id()', b'$[-4:-1].id()', b'$[::-2].id()'])
            c = Case('re%d' % i, path, docs, ['id'], meta={'family': 'reenter'})
            base.append(c)
            reenter[c.id] = [docs[(k + 1) % len(docs)] for k in range(len(docs))]
        raws = []
        for c in base:
            # now and then the Config is modified right after Parse (the same function names re-registered with other bodies):
            # the parsed function must keep the functions it was parsed with
            ops = [dict(op='parse', slot=0, mutate=bool(c.filters or c.aggs) and r.random() < 0.35, **op_cfg(c))]
            plan = []
            for k, d in enumerate(c.docs):
                if c.id in reenter:
                    ops.append({'op': 'call', 'slot': 0, 'doc': core.doc_go(d), 'reenter': core.doc_go(reenter[c.id][k])})
                    plan.append(('call', k, len(ops) - 1))
                    continue
                ops.append({'op': 'call', 'slot': 0, 'doc': core.doc_go(d)})
                plan.append(('call', k, len(ops) - 1))
                if r.random() < 0.5:
                    ops.append({'op': 'churn'})
                ops.append(dict(op='retrieve', doc=core.doc_go(d), **op_cfg(c)))
                plan.append(('fresh', k, len(ops) - 1))
            raws.append((RawCase(c.id, hist_json(c.id, ops)), plan))
        gos = core.run_go([x[0] for x in raws])
        core.fill_tables(base)
        mos = core.run_model(base)
        for c, (raw, plan), g_, m in zip(base, raws, gos, mos):
            res.evaluations += 1
            hp = harness_problem(g_) or harness_problem(m)
            if hp:
                res.violation('broken-correspondence', 'harness:' + hp[:60], hp, c)
                continue
            if g_.get('O0', '').split('!')[0] != m.get('P', ''):
                if pclass(g_.get('O0', '')) != pclass(m.get('P', '')):
                    res.violation('concrete', sig_of(c, 'parse'), 'parse outcome differs from the model', c,
                                  expected=m.get('P'), observed=g_.get('O0') or g_.get('P'))
                continue
            if m.get('P') != 'ok':
                continue
            outcomes = set()
            calls = {}
            for kind, k, opi in plan:
                o = g_.get('O%d' % opi, '')
                if kind == 'call':
                    calls[k] = o
                    outcomes.add(o)
                    want = '%s|%s' % (m.get('R%d' % k, ''), m.get('C%d' % k, ''))
                    if o != want:
                        res.disagreements_checked += 1
                        res.violation('concrete', sig_of(c, 'call-vs-model'),
                                      'call %d of the parsed function %r differs from the model (history of %d documents)' % (k, c.path, len(c.docs)),
                                      c, expected=want, observed=o)
                else:
                    if calls.get(k) != o:
                        res.violation('concrete', sig_of(c, 'call-vs-fresh'),
                                      'call %d of the parsed function %r differs from a fresh Retrieve on the same document' % (k, c.path),
                                      c, expected=o, observed=calls.get(k))
            if 'STALE' in g_:
                res.violation('concrete', sig_of(c, 'stale-result'), 'a result slice returned earlier changed later: %s' % g_['STALE'][:200], c,
                              observed=g_['STALE'])
            if g_.get('G', '') != GLOBALS_INIT:
                res.violation('concrete', sig_of(c, 'globals-changed'), 'the package-level verdict lists changed: %s' % g_.get('G'), c,
                              expected=GLOBALS_INIT, observed=g_.get('G'))
            if len(outcomes) >= 2:
                res.nontrivial.add(c.path + b'|' + core.doc_render(c.docs[0]).encode())
            res.dist['history-len-%d' % len(c.docs)] += 1
            if len(res.samples) < 5 and len(outcomes) >= 2:
                res.sample({'path': c.path.decode('utf-8', 'replace'), 'docs': [core.doc_json_text(d) for d in c.docs],
                            'call outcomes': [calls[k][:120] for k in sorted(calls)]})
        # a user function that PANICS in the middle of a filter operand that had already collected values (the caller recovers, as the
        # runner does): the calls that follow — of the same parsed function and fresh ones — return what they return in a fresh history.
        # Panics are outside the model: on the documents without a string the function is the identity, so the model is asked about `id`
        pcs = []
        for i in range(max(10, n // 120)):
            def items(bad):
                vs = [('n', float(r.randint(1, 9))) for _ in range(r.randint(2, 4))]
                return ('a', vs + [('s', b'x')] + vs[:r.randint(0, 1)] if bad else vs)
            def pdoc(bad):
                els = [('o', [(b'items', items(False)), (b'id', ('n', float(j)))]) for j in range(r.randint(1, 3))]
                if bad:
                    els.insert(r.randint(0, len(els)), ('o', [(b'items', items(True)), (b'id', ('n', 9.0))]))
                return ('a', els)
            docs = [pdoc(r.random() < 0.5) for _ in range(r.randint(3, 7))]
            docs[r.randint(0, len(docs) - 2)] = pdoc(True)
            path = r.choice([b'$[?(@.items[*].pstr())]', b'$[?(@.items[*].pstr())].id', b'$[?(@.items[0:].pstr())].id', b'$[?(@.items..*.pstr())].id',
                             b'$[?(@.items[*].pstr() || @.id > 0)].id', b'$..[?(@.items[*].pstr())].id'])
            pcs.append((Case('pn%d' % i, path, docs, ['pstr'], [], meta={'family': 'panic-history'}), [any(any(x[0] == 's' for x in e[1][0][1][1]) for e in d[1]) for d in docs]))
        self.panic_histories(res, pcs)

    def panic_histories(self, res, pcs):
        raws, mcs = [], []
        for c, bad in pcs:
            ops = [dict(op='parse', slot=0, mutate=False, **op_cfg(c))]
            for d in c.docs:
                ops.append({'op': 'call', 'slot': 0, 'doc': core.doc_go(d)})
                ops.append(dict(op='retrieve', doc=core.doc_go(d), **op_cfg(c)))
            raws.append(RawCase(c.id, hist_json(c.id, ops)))
            mcs.append(Case(c.id + 'm', c.path.replace(b'pstr', b'id'), [d for d, b_ in zip(c.docs, bad) if not b_] or [('a', [])], ['id'], []))
        gos = core.run_go(raws)
        core.fill_tables(mcs)
        mos = core.run_model(mcs)
        want_panic = 'panic:' + hx(b'user filter function panicked on a string')
        for (c, bad), g_, m in zip(pcs, gos, mos):
            res.evaluations += 1
            hp = harness_problem(g_) or harness_problem(m)
            if hp:
                res.violation('broken-correspondence', 'harness:' + hp[:60], hp, c)
                continue
            j = 0
            for k, b_ in enumerate(bad):
                oc, of = g_.get('O%d' % (1 + 2 * k), ''), g_.get('O%d' % (2 + 2 * k), '')
                if b_:
                    want = want_panic
                else:
                    want = ('%s|%s' % (m.get('R%d' % j, ''), m.get('C%d' % j, ''))).replace('F(id,', 'F(pstr,')
                    j += 1
                for what, o in (('call', oc), ('fresh Retrieve', of)):
                    if (o.split('|')[0] if b_ else o) != want:
                        res.disagreements_checked += 1
                        res.violation('concrete', sig_of(c, 'after-panic'),
                                      '%s %d of %r in a history with recovered panics of a user function differs from the same call in a fresh history' % (what, k, c.path),
                                      c, expected=want, observed=o)
            if 'STALE' in g_:
                res.violation('concrete', sig_of(c, 'stale-result'), 'a result slice returned earlier changed later: %s' % g_['STALE'][:200], c, observed=g_['STALE'])
            if any(bad) and not all(bad):
                res.nontrivial.add(c.path + b'|' + core.doc_render(c.docs[0]).encode())
            res.dist['panic-history'] += 1

    def replay(self, ctx, res, v):
        c = case_from_desc(v['case'])
        if (c.meta or {}).get('family') == 'panic-history':
            self.panic_histories(res, [(c, [any(any(x[0] == 's' for x in e[1][0][1][1]) for e in d[1]) for d in c.docs])])
            return
        ops = [dict(op='parse', slot=0, **op_cfg(c))]
        for d in c.docs:
            ops.append({'op': 'call', 'slot': 0, 'doc': core.doc_go(d)})
            ops.append(dict(op='retrieve', doc=core.doc_go(d), **op_cfg(c)))
        g_ = core.run_go([RawCase(c.id, hist_json(c.id, ops))])[0]
        core.fill_tables([c])
        m = core.run_model([c])[0]
        print('implementation:', g_)
        print('model         :', m)
        for k in range(len(c.docs)):
            if g_.get('O%d' % (1 + 2 * k)) != g_.get('O%d' % (2 + 2 * k)) or \
                    g_.get('O%d' % (1 + 2 * k)) != '%s|%s' % (m.get('R%d' % k, ''), m.get('C%d' % k, '')):
                res.violation('concrete', 'replay', 'call %d differs from fresh Retrieve / model' % k, c)
        if 'STALE' in g_ or g_.get('G') != GLOBALS_INIT:
            res.violation('concrete', 'replay', 'stale result or changed globals', c)


GLOBALS_INIT = None


def init_globals():
    global GLOBALS_INIT
    if GLOBALS_INIT is None:
        g = core.run_go([RawCase('g', hist_json('g', []))])[0]
        GLOBALS_INIT = g.get('G', '')
    return GLOBALS_INIT


# =======================================================================================
CONC_CORPUS = [
    (b'$.a', [], []), (b'$..a', [], []), (b'$.*', [], []), (b"$['a','b']", [], []), (b'$[0:2]', [], []), (b'$..[0,1]', [], []),
    (b'$[?(@.a == 1)]', [], []), (b'$[?(1 == 2)]', [], []), (b'$[?(@.a != $.b)]', [], []), (b'$[?(@.a < 2 && @.b)]', [], []),
    (b'$[?(@.a =~ /x/ || !@.b)]', [], []), (b'$[?(@.a >= $[0].a)]', [], []), (b"$[?(@.b == 'x')]", [], []),
    (b'$[?(@.a == true)]', [], []), (b'$[?(@.a == null)]', [], []), (b'$.*.twice()', ['twice'], []), (b'$.*.cnt()', [], ['cnt']),
    (b'$[?(@.a.twice() > 1)]', ['twice'], []), (b'$..*', [], []), (b'$[*].a', [], []), (b'$[?(@.a <= 1 || @.a > 5)].b', [], []),
    (b'$[?($.x == 1)]', [], []), (b'$.list[?($.a == 1)]', [], []), (b'$[?(@.b == $[1].b)]', [], []),
]


@register
class C06(Prop):
    id = 'C06'
    needs_race = True
    rule = ('scenarios run with the race detector (runner built -race, GORACE halt_on_error): 2..16 goroutines share '
            'parsed functions (a corpus covering every node and comparator kind plus generated paths) and documents, '
            'interleaved with Parse calls; 300..2000 goroutines parked inside one retrieval each at the same moment (a user '
            'function holds them until all have arrived); each goroutine result is compared with the sequential result; a race report '
            'kills the worker and is reported. Non-trivial: >= 2 goroutines x >= 2 shared functions. This part is '
            'testing, not proof (DESIGN §6 C06)')
    trusted = TRUSTED_EVAL + ['Go scheduler, sync.Mutex, sync.Pool and the Go memory model are not modelled; the race '
                              'detector only sees the interleavings that happen']

    def run(self, ctx, res, budget_scale=1, seed_offset=0):
        import json
        g = gens.G(ctx.seed * 13 + 6 + seed_offset)
        r = g.r
        n = ctx.n(60, 800) * budget_scale
        raws = []
        for i in range(n):
            docs = [g.filter_doc(False, 0) for _ in range(r.randint(1, 3))]
            docs.append(('a', [('o', [(b'a', ('n', 1.0)), (b'b', ('s', b'x'))]), ('o', [(b'a', ('n', 7.0))]), ('n', 3.0)]))
            if r.random() < 0.6:
                # documents decoded with UseNumber holding different numbers: per-node conversion state would mix them up
                for _ in range(r.randint(2, 3)):
                    docs.append(('a', [('o', [(b'a', ('j', str(r.choice([0, 1, 3, 6, 8, 10, 12, 100])))), (b'b', ('j', str(r.randint(0, 9))))])
                                       for _ in range(r.randint(2, 4))]))
            ops = []
            picks = r.sample(CONC_CORPUS, r.randint(2, 6))
            if r.random() < 0.6:
                picks.append(r.choice([(b'$[?(@.a > 7)].a', [], []), (b'$[?(@.a <= 6)].b', [], []), (b'$[?(@.a >= $[0].a)].a', [], []), (b'$[?(@.b < 5 && @.a > 2)]', [], [])]))
            for p, f, a in picks:
                ops.append({'op': 'parse', 'path_hex': hx(p), 'filters': f, 'aggs': a, 'acc': r.random() < 0.2})
            for _ in range(r.randint(0, 3)):
                c = mk_eval_cases(g, 1, 'x', funcs=0.3, filter_heavy=0.8)[0]
                ops.append(dict(op='parse', **op_cfg(c)))
                docs.append(c.docs[0])
            for d in docs:
                ops.append({'op': 'doc', 'doc': core.doc_go(d)})
            threads = r.choice([2, 3, 4, 8, 16])
            cid = 'k%d' % i
            raws.append(RawCase(cid, json.dumps({'id': cid, 'mode': 'conc', 'ops': ops, 'threads': threads, 'rounds': r.randint(1, 3)}),
                                meta={'threads': threads, 'paths': [unhx(o['path_hex']).decode('utf-8', 'replace') for o in ops if o['op'] == 'parse']}))
        # cold starts: a brand-new process whose first library calls are concurrent (no warm-up)
        for i in range(max(6, n // 8)):
            picks = r.sample(CONC_CORPUS, r.randint(2, 5))
            ops = [{'op': 'parse', 'path_hex': hx(p), 'filters': f, 'aggs': a, 'acc': False} for p, f, a in picks]
            ops.append({'op': 'doc', 'doc': core.doc_go(('a', [('o', [(b'a', ('n', 1.0)), (b'b', ('s', b'x'))]), ('n', 3.0)]))})
            if i % 2 == 0:
                # subscripts whose index lists grow with the array (wildcard and open slices inside a union), first met by
                # several goroutines at once on arrays longer than anything the process has seen
                for p in r.sample([b'$[*,0]', b'$[0,*]', b'$[*,*]', b'$[1:2,*]', b'$[0:,0]', b'$[::2,1]', b'$[::-1,0]', b'$..[*,0]'], 3):
                    ops.insert(0, {'op': 'parse', 'path_hex': hx(p), 'filters': [], 'aggs': [], 'acc': False})
                for ln in r.sample([700, 1500, 3000, 5000], 2):
                    ops.append({'op': 'doc', 'doc': core.doc_go(('a', [('n', float(k)) for k in range(ln)]))})
            threads = r.choice([2, 4, 8, 16])
            cid = 'cold%d' % i
            raws.append(RawCase(cid, json.dumps({'id': cid, 'mode': 'cold', 'ops': ops, 'threads': threads}),
                                meta={'threads': threads, 'cold': True, 'paths': [unhx(o['path_hex']).decode('utf-8', 'replace') for o in ops if o['op'] == 'parse']}))
        # far more callers in flight than processors: several hundred to over a thousand goroutines are inside one retrieval each
        # at the same moment (a user function parks them until all have arrived); the library has no limit on concurrent callers
        for i in range(2 if ctx.quick else 6):
            threads = [1100, 300, 700, 1500, 520, 2000][i]
            pdoc = ('o', [(b'a', ('s', b'x')), (b'list', ('a', [('o', [(b'a', ('n', float(k))), (b'b', ('n', float(k)))]) for k in range(1, 5)]))])
            ops = [{'op': 'parse', 'path_hex': hx(p), 'filters': ['park', 'twice'], 'aggs': ['cnt'], 'acc': False}
                   for p in [b'$.a.park()', b'$.list[?(@.a.park() > 1 && @.b.park() < 4)].a', b'$.list[*].a.park().twice()', b'$.list[?(@.a.park() > $.list[0].a)].b.cnt()']]
            ops.append({'op': 'doc', 'doc': core.doc_go(pdoc)})
            cid = 'park%d' % i
            raws.append(RawCase(cid, json.dumps({'id': cid, 'mode': 'parked', 'ops': ops, 'threads': threads}),
                                meta={'threads': threads, 'paths': [unhx(o['path_hex']).decode('utf-8', 'replace') for o in ops if o['op'] == 'parse']}))
        env_runner = core.RUNNER_RACE
        os.environ['GORACE'] = 'halt_on_error=1'
        gos = core.run_go(raws, jobs=4, timeout_ms=120000, runner=env_runner)
        for raw, g_ in zip(raws, gos):
            res.evaluations += 1
            if g_.get('PARKED', '').startswith('ok:'):
                g_['CONC'] = g_['PARKED']
            if g_.get('CONC', '').startswith('ok:') or g_.get('COLD', '').startswith('ok:'):
                res.nontrivial.add(raw.id)
                res.dist['threads-%d' % raw.meta['threads']] += 1
                if len(res.samples) < 4:
                    res.sample({'threads': raw.meta['threads'], 'paths': raw.meta['paths'], 'observed': g_['CONC']})
                continue
            what = 'data race or crash under the race detector' if g_.get('P') in ('crash', 'timeout') or g_.get('COLD') == 'race' else \
                'concurrent result differs from sequential: %s' % (g_.get('DIFF') or g_.get('COLD') or g_.get('PARKED'))
            res.violation('concrete', 'conc|' + '|'.join(raw.meta['paths']), what,
                          {'scenario': json.loads(raw.text), 'paths': raw.meta['paths']}, observed=g_)

    def replay(self, ctx, res, v):
        import json
        os.environ['GORACE'] = 'halt_on_error=1'
        sc = v['case']['scenario']
        for k in range(5):
            g_ = core.run_go([RawCase(sc['id'], json.dumps(sc))], jobs=1, timeout_ms=120000, runner=core.RUNNER_RACE)[0]
            print('implementation:', g_)
            if not (g_.get('CONC', '').startswith('ok:') or g_.get('COLD', '').startswith('ok:')):
                res.violation('concrete', 'replay', 'race / differing result reproduced', v['case'])
                return


# =======================================================================================
C07_KEYS = [b'a', b'b', b'B', b'aa', b'ab', b'a-b', b'\xc3\xa9', b'z', b'Z', b'10', b'9', b'_x', b'k1', b'\xe3\x81\x82',
            b'zz', b'a\xcc\x81', b'\xf0\x9f\x98\x80', b'{', b'~', b' ', b'', b'A', b'aaa', b'b0',
            b'\xef\xbd\xb1', b'\xee\x80\x80', b'\xf0\x90\x80\x80', b'a\xef\xbf\xbd', b'a\xf0\x9f\x98\x80']


@register
class C07(Prop):
    id = 'C07'
    rule = ('objects with 2..12 keys (keys that sort differently by byte, rune and length) built in 3 insertion orders; '
            'paths with wildcard / filter / recursive steps evaluated 8 times interleaved with evaluations on other maps; '
            'all repetitions must return the same sequence, equal to the model (sorted keys, index order, written order, '
            'pre-order). Non-trivial: an object with >= 3 keys reached by a wildcard/filter/recursive step')
    trusted = TRUSTED_EVAL + ['sort.Strings is assumed to sort byte-wise; Go map iteration order is not modelled (the model '
                              'reaches objects only through sorted keys and lookup)']

    def wide_histories(self, ctx, res, g, budget_scale):
        """an object with 30..45 members that the caller keeps and edits in place between calls (a member renamed: same
        count, other name): every call must enumerate the CURRENT members in ascending key order"""
        r = g.r
        base, raws = [], []
        for i in range(ctx.n(30, 300) * budget_scale):
            nk = r.randint(30, 45)
            keys = set()
            while len(keys) < nk:
                keys.add(r.choice([b'k', b'a', b'z', b'K']) + b'%03d' % r.randint(0, 999))
            keys = list(keys)
            r.shuffle(keys)
            cur = [(k, ('n', float(j))) for j, k in enumerate(keys)]
            path = r.choice([b'$.*', b'$..*', b'$[*]', b'$[?(@ >= 0)]', b'$[?(@)]', b'$..[?(@ >= 0)]'])
            ops = [dict(op='parse', slot=0, **op_cfg(Case('x', path, [])))]
            docs = []
            for step in range(r.randint(2, 4)):
                op = {'op': 'call', 'slot': 0, 'doc_ref': 1}
                if step > 0:
                    j = r.randrange(len(cur))
                    new = r.choice([b'k', b'a', b'z', b'K', b'm']) + b'%03d' % r.randint(0, 999)
                    if new not in dict(cur):
                        op['rename'] = [core.hx(cur[j][0]), core.hx(new)]
                        cur = cur[:j] + cur[j + 1:] + [(new, cur[j][1])]
                d = ('o', list(cur))
                op['doc'] = core.doc_go(d)
                docs.append(d)
                ops.append(op)
            c = Case('wide%d' % i, path, docs, meta={'family': 'wide-object-renamed-in-place', 'nkeys': nk})
            base.append(c)
            raws.append(RawCase(c.id, hist_json(c.id, ops)))
        gos = core.run_go(raws)
        core.fill_tables(base)
        mos = core.run_model(base)
        for c, g_, m in zip(base, gos, mos):
            res.evaluations += 1
            hp = harness_problem(g_) or harness_problem(m)
            if hp:
                res.violation('broken-correspondence', 'harness:' + hp[:60], hp, c)
                continue
            for k in range(len(c.docs)):
                o = g_.get('O%d' % (k + 1), '').split('|')[0]
                want = m.get('R%d' % k, '')
                if o != want:
                    res.disagreements_checked += 1
                    res.violation('concrete', sig_of(c, 'order-after-rename'),
                                  'call %d of %r on an object of %d members edited in place: the members of the current object in ascending key order' % (k, c.path, c.meta['nkeys']),
                                  c, expected=want[:300], observed=o[:300])
                    break
            res.nontrivial.add((c.path, c.id))
            res.dist['wide-history'] += 1

    def run(self, ctx, res, budget_scale=1, seed_offset=0):
        g = gens.G(ctx.seed * 17 + 7 + seed_offset)
        r = g.r
        n = ctx.n(1200, 10000) * budget_scale
        self.wide_histories(ctx, res, gens.G(ctx.seed * 19 + 77 + seed_offset), budget_scale)
        cases = load_corpus(self.id, ctx.root) if seed_offset == 0 else []
        # containers nested 9..40 levels deep, with siblings at every level: the pre-order of `..` far below the usual depth
        for i in range(max(10, n // 60)):
            depth = r.choice([9, 10, 12, 16, 17, 18, 24, 33, 34, 40])
            node = ('o', [(b'a', ('s', b'leaf')), (b'z', ('n', 0.0))])
            for lv in range(depth, 0, -1):
                sib = [('n', float(lv)), ('o', [(b'a', ('n', float(100 + lv)))])][:r.randint(0, 2)]
                if r.random() < 0.5:
                    node = ('a', [node] + sib) if r.random() < 0.7 else ('a', sib + [node])
                else:
                    node = ('o', [(b'a', ('n', float(lv))), (r.choice([b'b', b'0', b'z']), node)] + ([(b'c', ('a', sib))] if sib else []))
            path = r.choice([b'$..a', b"$..['a']", b'$..[0]', b'$..*', b'$..[*]', b'$..z', b'$..[?(@.a)]', b'$..a..a', b'$..[0]..a'])
            cases.append(Case('deep%d' % i, path, [node, shuffle_doc(r, node)], meta={'perm_idx': [0, 1], 'nkeys': 3, 'family': 'deep-nesting'}))
        # containers with 33..60 container children (whatever a walker keeps pending at once must not run out): the pre-order of `..`
        for i in range(max(8, n // 120)):
            w = r.choice([33, 34, 40, 48, 60])
            kids = [r.choice([('o', [(b'a', ('n', float(k)))]), ('a', [('n', float(k)), ('o', [(b'a', ('n', float(100 + k)))])]),
                              ('o', [(b'b', ('a', [('n', float(k))])), (b'a', ('n', float(k)))])]) for k in range(w)]
            node = ('a', kids) if r.random() < 0.5 else ('o', [(b'k%02d' % k, x) for k, x in enumerate(kids)])
            if r.random() < 0.4:
                node = ('o', [(b'w', node), (b'a', ('s', b'top'))])
            path = r.choice([b'$..a', b'$..[0]', b"$..['a']", b'$..*', b'$..b[0]', b'$..[?(@.a)]'])
            cases.append(Case('fan%d' % i, path, [node, shuffle_doc(r, node)], meta={'perm_idx': [0, 1], 'nkeys': 3, 'family': 'wide-fan-out'}))
        templates = [b'$.*', b'$..*', b'$[*]', b'$..[*]', b'$[?(@)]', b'$..[?(@)]', b'$.*.*', b'$..a', b"$..['a','b']",
                     b'$[?(@.a)]', b'$..[?(@.a || @.b)]', b'$.*[*]', b'$..*.*', b"$['b','a',*]", b'$[*,*]']
        for i in range(n):
            def obj(depth):
                ks = r.sample(C07_KEYS, r.randint(2, 12))
                if r.random() < 0.15:
                    # a character beyond the BMP next to one in U+E000..U+FFFF: byte order and UTF-16 order disagree
                    ks = list(dict.fromkeys(ks + r.choice([[b'\xf0\x9f\x98\x80', b'\xef\xbd\xb1'], [b'\xf0\x90\x80\x80', b'\xee\x80\x80'],
                                                           [b'a\xf0\x9f\x98\x80', b'a\xef\xbf\xbd']])))
                return ('o', [(k, (obj(depth - 1) if depth > 0 and r.random() < 0.25 else
                                   (('a', [obj(0) if r.random() < 0.3 and depth > 0 else g.scalar() for _ in range(r.randint(0, 3))])
                                    if r.random() < 0.2 else g.scalar()))) for k in ks])
            d = obj(2)
            perms = [d]
            for _ in range(2):
                perms.append(shuffle_doc(r, d))
            other = [g.doc(2, False, 0, keys=C07_KEYS[:12]) for _ in range(2)]
            docs = [perms[0], other[0], perms[1], perms[2], other[1], perms[0], perms[1], perms[2], perms[0], perms[1]]
            if r.random() < 0.6:
                path = r.choice(templates)
            else:
                steps = g.gen_path(d, 3, 0.0)
                path = gens.render_path(steps)
            if r.random() < 0.15:
                # the members handed to an aggregate function (which may well depend on their order) come in the same order
                path = r.choice([b'$.*', b'$[*]', b'$..*', b'$[?(@)]', b'$.*.*', b"$..['a','b']", b'$..a', b'$[?(@.a || @.b)]']) + r.choice([b'.arr()', b'.first()', b'.arr().id()', b'.arr().tn()'])
                cases.append(Case('p%d' % i, path, docs, ['id', 'tn'], ['arr', 'first'], meta={'perm_idx': [0, 2, 3, 5, 6, 7, 8, 9], 'nkeys': len(d[1]), 'family': 'members-to-aggregate'}))
                continue
            if r.random() < 0.12:
                # … also when the aggregate stands inside a FILTER OPERAND (the argument lists are in the call log, compared below)
                path = r.choice([b'$[?(@.*.first())]', b'$[?(@..*.arr())]', b'$..[?(@.*.first())]', b"$[?(@.*.arr().tn() == 'x')]", b'$.*[?(@.*.first())]',
                                 b'$[?($.*.first())]', b'$[?($..*.arr())]', b'$[?(@[?(@)].arr())]'])
                cases.append(Case('p%d' % i, path, docs, ['id', 'tn'], ['arr', 'first'], meta={'perm_idx': [0, 2, 3, 5, 6, 7, 8, 9], 'nkeys': len(d[1]), 'family': 'members-to-aggregate-in-operand'}))
                continue
            cases.append(Case('p%d' % i, path, docs, meta={'perm_idx': [0, 2, 3, 5, 6, 7, 8, 9], 'nkeys': len(d[1])}))
            if i % 4 == 0:
                # the same sub-container referenced from several parents (a document assembled in Go code)
                sub = obj(1)
                arr = ('a', [sub, g.scalar(), sub])
                shared = ('o', [(b'p', sub), (b'q', ('o', [(b'r', sub), (b's', arr)])), (b't', arr)])
                c2 = Case('al%d' % i, r.choice([b'$..*', b'$..a', b'$..[0]', b'$..[*]', b'$.*.*', b'$..[?(@)]', path]), [shared, shared], meta={'perm_idx': [0, 1], 'nkeys': 3})
                c2.alias = True
                cases.append(c2)
        # arrays of several hundred elements below `..` followed by a step that takes arrays (index, slice, union, wildcard, filter): every
        # element once, in index order, the containers in pre-order
        for i, ln in enumerate([257, 300, 513, 700] if ctx.quick else [256, 257, 258, 300, 511, 513, 700, 1025]):
            wide = ('a', [('n', float(k)) for k in range(ln)])
            d = ('o', [(b'a', wide), (b'b', ('a', [('n', -1.0), ('a', [('n', float(k)) for k in range(ln - 1)])])), (b'c', ('n', 5.0))])
            for j, path in enumerate([b'$..[0,-1]', b'$..[*]', b'$..[-3:]', b'$..[255:259]', b'$..[?(@ > %d)]' % (ln - 4), b'$..[0]', b'$..[::100]', b'$..*']):
                if (i + j) % 2 == 0:
                    cases.append(Case('wd%d_%d' % (i, j), path, [d] * 8, meta={'perm_idx': list(range(8)), 'nkeys': 3, 'family': 'wide-arrays-under-descent'}))
        # function names are looked up exactly: two registered names that differ only in letter case and a path that spells a third
        # form — not found, every time (whatever order a map hands its keys out in)
        for i, (fl, ag, path) in enumerate([(['Twice', 'TWICE'], [], b'$.*.twice()'), ([], ['Cnt', 'CNT'], b'$.*.cnt()'), (['Id', 'iD'], ['First', 'FIRST'], b'$[?(@.id())]'),
                                            (['Twice', 'TWICE', 'tWICE'], [], b'$..a.twice()'), ([], ['Arr', 'ARR'], b'$[?(@.*.arr())]'), (['Tn', 'TN'], [], b'$.*.tn().Tn()')]):
            d = ('o', [(b'a', ('n', 1.0)), (b'b', ('a', [('n', 2.0), ('n', 3.0)]))])
            cases.append(Case('cs%d' % i, path, [d] * 8, fl, ag, meta={'perm_idx': list(range(8)), 'nkeys': 2, 'family': 'function-name-case'}))
        go, mo = both_sides(cases)
        for c, g_, m in zip(cases, go, mo):
            res.evaluations += 1
            hp = harness_problem(g_) or harness_problem(m)
            if hp:
                res.violation('broken-correspondence', 'harness:' + hp[:60], hp, c)
                continue
            idx = c.meta.get('perm_idx') or list(range(len(c.docs)))
            seqs = [g_.get('R%d' % k, 'P:' + g_.get('P', '')) + '|' + g_.get('C%d' % k, '') for k in idx]
            if len(set(seqs)) > 1:
                res.violation('concrete', sig_of(c, 'order-unstable'),
                              'repeated evaluation of %r on equal documents returned different sequences' % (c.path,), c, observed=sorted(set(seqs))[:3])
            for k in range(len(c.docs)):
                a, b = g_.get('R%d' % k, 'P:' + g_.get('P', '')), m.get('R%d' % k, 'P:' + m.get('P', ''))
                if a != b:
                    res.disagreements_checked += 1
                    res.violation('concrete', sig_of(c, 'order-vs-model'), 'result sequence of %r differs from the model (document %d)' % (c.path, k), c,
                                  expected=b, observed=a)
                    break
                ca, cb = g_.get('C%d' % k, ''), m.get('C%d' % k, '')
                if ca != cb:
                    res.disagreements_checked += 1
                    res.violation('concrete', sig_of(c, 'argument-order-vs-model'), 'what the functions of %r received differs from the model (document %d)' % (c.path, k), c,
                                  expected=cb, observed=ca)
                    break
            seqs = [s_.split('|')[0] for s_ in seqs]
            if seqs[0].startswith('ok:') and c.meta.get('nkeys', 0) >= 3 and len(values_of(seqs[0])) >= 2:
                res.nontrivial.add((c.path, core.doc_render(c.docs[0])))
                if len(res.samples) < 5:
                    res.sample({'path': c.path.decode('utf-8', 'replace'), 'doc': core.doc_json_text(c.docs[0])[:300], 'observed': seqs[0][:300]})
            res.dist[cls_of(seqs[0])] += 1

    def replay(self, ctx, res, v):
        c = case_from_desc(v['case'])
        go, mo = both_sides([c])
        print('implementation:', go[0])
        print('model         :', mo[0])
        if {k: x for k, x in go[0].items() if k[0] == 'R'} != {k: x for k, x in mo[0].items() if k[0] == 'R'}:
            res.violation('concrete', 'replay', 'sequence differs from the model', c)


def shuffle_doc(r, d):
    if d[0] == 'o':
        items = [(k, shuffle_doc(r, v)) for k, v in d[1]]
        r.shuffle(items)
        return ('o', items)
    if d[0] == 'a':
        return ('a', [shuffle_doc(r, x) for x in d[1]])
    return d


# =======================================================================================
def go_float_text(x):
    """the shortest decimal spelling encoding/json prints for a float64"""
    import math
    if x == int(x) and abs(x) < 1e21:
        return str(int(x))
    s = repr(x)
    if 'e' in s:
        m, e = s.split('e')
        if m.endswith('.0'):
            m = m[:-2]
        sign = '-' if e.startswith('-') else '+'
        e = e.lstrip('+-').lstrip('0') or '0'
        if len(e) < 2:
            e = '0' + e
        return '%se%s%s' % (m, sign, e)
    return s


def to_jnum(d):
    t = d[0]
    if t == 'n':
        import math
        if math.isinf(d[1]) or math.isnan(d[1]):
            return d
        return ('j', go_float_text(d[1]))
    if t == 'a':
        return ('a', [to_jnum(x) for x in d[1]])
    if t == 'o':
        return ('o', [(k, to_jnum(v)) for k, v in d[1]])
    return d


def canon_nums(r):
    """replace every j(hex spelling) in a rendering by the n(m,e) rendering of its value"""
    def rep(m):
        return core.render_num(float(unhx(m.group(1)).decode()))
    return re.sub(r'j\(([0-9a-f]+)\)', rep, r)


def distinct_members(g, jnum=False, opaque=0.0, n=None):
    """a list of pairwise distinct members (objects get a unique key u)"""
    r = g.r
    n = r.randint(0, 6) if n is None else n
    ms = g.similar_members(n, jnum, opaque)
    out, seen = [], set()
    for i, m in enumerate(ms):
        if m[0] == 'o':
            m = ('o', list(m[1]) + [(b'u', ('n', float(i)))])
        k = core.doc_render(m)
        tries = 0
        while k in seen and tries < 20:
            m = ('s', b'uniq%d' % (i * 31 + tries))
            k = core.doc_render(m)
            tries += 1
        seen.add(k)
        out.append(m)
    return out


def plant_nan(r, ms):
    """some numeric leaves become a Go float64 NaN (a document assembled in Go code; no JSON text decodes to it):
    numeric fields of object members, and at most one scalar member (members stay pairwise distinct)"""
    out, scalar_done = [], False
    for m in ms:
        if m[0] == 'o':
            m = ('o', [(k, ('x', 'nan')) if (v[0] == 'n' and k != b'u' and r.random() < 0.5) else (k, v) for k, v in m[1]])
        elif m[0] == 'n' and not scalar_done and r.random() < 0.5:
            m, scalar_done = ('x', 'nan'), True
        out.append(m)
    return out


def selection(obs):
    """the selected members of `$[?(…)]` as a list of renderings; None when the call did not
    end in ok / member-not-exist"""
    if obs.startswith('ok:['):
        return values_of(obs)
    if cls_of(obs) == 'mne':
        return []
    return None


@register
class C08(Prop):
    id = 'C08'
    rule = ('generated paths split at every step boundary into P and Q (Q without $-rooted operands and aggregates): '
            'retrieve P++Q, retrieve P, then retrieve $++Q from every value P returned (three kinds of retrievals on '
            'the implementation, no model needed), and the concatenation must equal the first; also compared with the '
            'model. Non-trivial: both P and P++Q select >= 1 value')
    trusted = TRUSTED_EVAL

    def from_text(self, ctx, res, g, budget_scale):
        """C08_concatenation_from_text: paths written as Coq's fchain_path (steps and filters, confirmed by the driver), split at a
        step boundary into P and Q: `$`PQ on the document against the concatenation of `$`Q on every value `$`P returns"""
        r = g.r
        items = []
        for i in range(ctx.n(250, 2500) * budget_scale):
            for _try in range(6):
                doc, text, spec, cur = gen_chain(g, filters=0.25, roots=0.15)
                if len(spec) >= 2 and (cur or r.random() < 0.2):
                    break
            if len(spec) < 2:
                continue
            # the continuation Q must not look at the document root (fstep_rootfree): `$` there is the value P reached, not the document
            def tree_leaves(t):
                return [t[1]] if t[0] == 'b' else tree_leaves(t[1]) if t[0] == 'p' else tree_leaves(t[1]) + tree_leaves(t[2])
            rooted = [j for j, st in enumerate(spec) for st1 in [st[1] if st[0] == 11 else st]
                      if (st1[0] == 10 and any(b[0] in ('re', 'rn', 'cr', 'pq', 'rl') for conj in st1[1] for b in conj))
                      or (st1[0] == 15 and any(b[0] in ('re', 'rn', 'cr', 'pq', 'rl') for b in tree_leaves(st1[1])))]
            lo = max(rooted) + 1 if rooted else 1
            if lo > len(spec) - 1:
                continue
            k = r.randint(lo, len(spec) - 1)
            cut = g.last_marks[k]
            items.append((doc, text, spec, text[:cut], '$' + text[cut:], spec[k:]))
        whole, pre = [], []
        for i, (doc, text, spec, ptext, qtext, qspec) in enumerate(items):
            w = Case('cw%d' % i, text.encode('utf-8'), [doc], meta={'family': 'coq-concatenation', 'nsteps': len(spec)})
            w.keyc = spec
            whole.append(w)
            pre.append(Case('cp%d' % i, ptext.encode('utf-8'), [doc]))
        go_w, mo_w = both_sides(whole)
        go_p = core.run_go(pre)
        third, owner = [], []
        for i, (it, gp) in enumerate(zip(items, go_p)):
            rp = gp.get('R0', '')
            if not rp.startswith('ok:['):
                continue
            try:
                vals = [parse_render(v) for v in values_of(rp)]
            except Exception:
                continue
            for j, v in enumerate(vals):
                c = Case('ct%d_%d' % (i, j), it[4].encode('utf-8'), [v])
                c.keyc = it[5]
                third.append(c)
                owner.append(i)
        go_t, mo_t = both_sides(third) if third else ([], [])
        per = collections.defaultdict(list)
        for i, gt, mt in zip(owner, go_t, mo_t):
            if mt.get('P') == 'ok' and mt.get('KP') != '1':
                res.violation('broken-correspondence', 'harness:fchain_path', 'the continuation sent is not Coq fchain_path of its steps', whole[i])
            per[i].append(gt.get('R0', 'P:' + gt.get('P', '')))
        for i, (c, gw, mw) in enumerate(zip(whole, go_w, mo_w)):
            res.evaluations += 1
            hp = harness_problem(gw) or harness_problem(mw)
            if hp:
                res.violation('broken-correspondence', 'harness:' + hp[:60], hp, c)
                continue
            if mw.get('KP') != '1':
                res.violation('broken-correspondence', 'harness:fchain_path', 'the path sent is not Coq fchain_path of its steps', c)
                continue
            cat = []
            for rq in per.get(i, []):
                if rq.startswith('ok:['):
                    cat += values_of(rq)
            rw = gw.get('R0', '')
            got = values_of(rw) if rw.startswith('ok:[') else []
            if got != cat or (not cat and rw.startswith('ok:')) or gw.get('R0') != mw.get('R0'):
                res.disagreements_checked += 1
                res.violation('concrete', sig_of(c, 'concatenation-from-text'),
                              '%r = %r then %r: the values must be the concatenation of the continuation on every value of the prefix' % (c.path, items[i][3], items[i][4]), c,
                              expected=cat, observed={'impl': rw, 'model': mw.get('R0')})
            if cat and len(per.get(i, [])) >= 1:
                res.nontrivial.add((c.path, core.doc_render(c.docs[0])))
            res.dist['text:' + cls_of(rw or 'P')] += 1

    def run(self, ctx, res, budget_scale=1, seed_offset=0):
        g = gens.G(ctx.seed * 19 + 8 + seed_offset)
        g.allow_root = False
        g.allow_agg = False
        self.from_text(ctx, res, gens.G(ctx.seed * 37 + 88 + seed_offset), budget_scale)
        r = g.r
        n = ctx.n(4000, 30000) * budget_scale
        items = []
        for i in range(n):
            doc = g.filter_doc(False, 0) if r.random() < 0.4 else g.doc(3, r.random() < 0.15, 0)
            steps = g.gen_path(doc, 4, 0.25)
            if len(steps) < 2:
                steps = steps + g.gen_path(doc, 2, 0.0)
            f, a = gens.funcs_used(steps)
            for k in range(1, len(steps)):
                items.append((doc, steps[:k], steps[k:], f))
        for i in range(n // 4):
            doc, steps = gens.nested_arrays_family(g)
            for k in range(1, len(steps)):
                items.append((doc, steps[:k], steps[k:], []))
        for i in range(n // 8):
            doc, steps = gens.allwild_family(g)
            for k in range(1, len(steps)):
                items.append((doc, steps[:k], steps[k:], []))
        for i in range(n // 6):
            doc, steps = gens.rec_filter_family(g)
            if len(steps) < 2:
                steps = [('wild', 'br')] + steps
            for k in range(1, len(steps)):
                items.append((doc, steps[:k], steps[k:], []))
        # long arrays under a multi-valued prefix (the prefix has put results into the buffer before the long run of appends)
        for i in range(max(12, n // 150)):
            doc, steps = gens.big_fanout_family(g)
            for k in range(1, len(steps)):
                items.append((doc, steps[:k], steps[k:], []))
        # documents assembled in Go code: a sub-container referenced from two places (shared, not copied)
        aliased = set()
        for i in range(len(items)):
            doc, p_, q_, f_ = items[i]
            if r.random() < (0.12 if any(st[0] == 'rec' for st in p_ + q_) else 0.02):
                d2 = gens.alias_variant(r, doc)
                if d2 is not None:
                    items[i] = (d2, p_, q_, f_)
                    aliased.add(i)
        corpus = load_corpus(self.id, ctx.root) if seed_offset == 0 else []
        # now and then the path is written without its leading `$` (a bracket or a bare name may start a path)
        nodollar = [r.random() < 0.12 for _ in items]
        whole = [Case('w%d' % i, gens.render_path(p + q, None, dollar=not nodollar[i]), [doc], f, []) for i, (doc, p, q, f) in enumerate(items)]
        pre = [Case('p%d' % i, gens.render_path(p, None, dollar=not nodollar[i]), [doc], f, []) for i, (doc, p, q, f) in enumerate(items)]
        for i in aliased:
            whole[i].alias = True
            pre[i].alias = True
        go_w, mo_w = both_sides(whole + corpus)
        go_p = core.run_go(pre)
        # third retrievals: $Q on every value P selected
        third, owner = [], []
        for i, ((doc, p, q, f), gp) in enumerate(zip(items, go_p)):
            rp = gp.get('R0', '')
            if not rp.startswith('ok:['):
                continue
            try:
                vals = [parse_render(v) for v in values_of(rp)]
            except Exception:
                continue
            qpath = gens.render_path(q)
            for j, v in enumerate(vals):
                third.append(Case('t%d_%d' % (i, j), qpath, [v], f, []))
                owner.append(i)
        go_t = core.run_go(third) if third else []
        per = collections.defaultdict(list)
        for i, gt in zip(owner, go_t):
            per[i].append(gt.get('R0', 'P:' + gt.get('P', '')))
        for i, (c, gw, mw) in enumerate(zip(whole + corpus, go_w, mo_w)):
            res.evaluations += 1
            hp = harness_problem(gw) or harness_problem(mw)
            if hp:
                res.violation('broken-correspondence', 'harness:' + hp[:60], hp, c)
                continue
            rw = gw.get('R0', 'P:' + gw.get('P', ''))
            rm = mw.get('R0', 'P:' + mw.get('P', ''))
            a = rw if rw.startswith('ok:') else ('fail' if cls_of(rw) in ('mne', 'tum', 'ff') else rw)
            b = rm if rm.startswith('ok:') else ('fail' if cls_of(rm) in ('mne', 'tum', 'ff') else rm)
            if a != b:
                res.disagreements_checked += 1
                res.violation('concrete', sig_of(c, 'compose-vs-model'), 'values of %r differ from the model' % (c.path,), c, expected=rm, observed=rw)
            if i >= len(items) or gw.get('P') != 'ok':
                continue
            doc, p, q, f = items[i]
            rp = go_p[i].get('R0', '')
            if go_p[i].get('P') != 'ok':
                continue
            if rp.startswith('ok:['):
                parts = []
                bad = False
                for o in per.get(i, []):
                    if o.startswith('ok:['):
                        parts += values_of(o)
                    elif cls_of(o) not in ('mne', 'tum', 'ff'):
                        bad = True
                if bad:
                    continue
                expect = 'ok:[' + ','.join(parts) + ']' if parts else 'fail'
            else:
                expect = 'fail'
            if a != expect:
                res.violation('concrete', sig_of(c, 'compose'),
                              'P=%r Q=%r: retrieving P++Q differs from retrieving $++Q from every value of P' %
                              (gens.render_path(p), gens.render_path(q)), c, expected=expect, observed=rw,
                              extra={'P': gens.render_path(p).decode('utf-8', 'replace'), 'Q': gens.render_path(q).decode('utf-8', 'replace')})
            if rw.startswith('ok:') and rp.startswith('ok:'):
                res.nontrivial.add((c.path, core.doc_render(doc)))
                if len(res.samples) < 5:
                    res.sample({'P': gens.render_path(p).decode('utf-8', 'replace'), 'Q': gens.render_path(q).decode('utf-8', 'replace'),
                                'doc': core.doc_json_text(doc)[:300], 'P++Q': rw[:200], 'P': rp[:200]})
            res.dist[cls_of(rw)] += 1

    def replay(self, ctx, res, v):
        c = case_from_desc(v['case'])
        go, mo = both_sides([c])
        print('implementation:', go[0])
        print('model         :', mo[0])
        if 'P' in v and 'Q' in v:
            gp = core.run_go([Case('p', v['P'].encode(), c.docs, c.filters, c.aggs)])[0]
            print('P alone       :', gp)
            parts = []
            if gp.get('R0', '').startswith('ok:['):
                for x in values_of(gp['R0']):
                    gt = core.run_go([Case('t', v['Q'].encode(), [parse_render(x)], c.filters, c.aggs)])[0]
                    print('   $Q on', x[:80], '->', gt.get('R0'))
                    if gt.get('R0', '').startswith('ok:['):
                        parts += values_of(gt['R0'])
            expect = 'ok:[' + ','.join(parts) + ']' if parts else 'fail'
            rw = go[0].get('R0', '')
            if (rw if rw.startswith('ok:') else 'fail') != expect:
                res.violation('concrete', 'replay', 'composition fails', c)
        if {k: x for k, x in go[0].items() if k[0] == 'R' and x.startswith('ok')} != {k: x for k, x in mo[0].items() if k[0] == 'R' and x.startswith('ok')}:
            res.violation('concrete', 'replay', 'differs from the model', c)


# =======================================================================================
def fexpr_paths(container_path, exprs):
    return [container_path + b'[?(' + e + b')]' for e in exprs]


@register
class C09(Prop):
    id = 'C09'
    rule = ('families of related filters over one container of 0..6 pairwise distinct members (arrays and objects; '
            'members hit, miss or mistype the operand paths): A, B, A&&B, A||B; p, !p; x==y, x!=y; a<b, b>a (all six '
            'operators mirrored, both orders, literal/@/$ operands); a<=n, a<n, a==n against number literals. The '
            'selections must satisfy the set identities, and every retrieval is also compared with the model. '
            'Non-trivial: the related filters select different non-empty sets on a container of >= 2 members')
    trusted = TRUSTED_EVAL

    def from_text(self, ctx, res, g, budget_scale):
        """C01_filter_retrieval with comparison steps: `$[?(@ inner OP number)]` (text = Coq fchain_path, confirmed by the
        driver) over containers whose members offer float64 numbers, json.Number numbers, other types or nothing at inner;
        expected: the members whose number stands in the relation (for != : all the others), computed from the document"""
        r = g.r
        cases, want = [], {}
        for i in range(ctx.n(400, 4000) * budget_scale):
            names = [b'a', b'b', b'k']
            kb = r.choice(names)
            inner_kind = r.choice(['name', 'name', 'self', 'idx', 'name2'])
            pool = [0.0, 1.0, 2.0, 2.5, -1.0, 10.0, 100.0, 0.5, 3.0, -0.0, 0.0]

            def numv():
                x = r.choice(pool)
                return ('n', x) if r.random() < 0.6 else ('j', r.choice(['%g' % x, repr(x), '%.2f' % x]))

            def leaf():
                k = r.random()
                return numv() if k < 0.7 else r.choice([('s', b'2'), ('z',), ('b', True), ('a', [('n', 2.0)]), ('o', [])])

            def member():
                if inner_kind == 'self':
                    return leaf()
                if inner_kind == 'idx':
                    return ('a', [leaf() for _ in range(r.randint(0, 3))])
                if inner_kind == 'name2':
                    return ('o', [(kb, ('o', [(b'c', leaf())] if r.random() < 0.8 else []))]) if r.random() < 0.85 else leaf()
                ms = [(kk, leaf()) for kk in names if r.random() < 0.6]
                return ('o', ms) if r.random() < 0.9 else leaf()
            ms = [member() for _ in range(r.randint(0, 6))]
            body = ('a', ms) if r.random() < 0.6 else ('o', [(b'm%d' % j, v) for j, v in enumerate(ms)])
            if inner_kind == 'self':
                itext, ispec = '', []
            elif inner_kind == 'idx':
                n_ = r.randint(0, 2)
                itext, ispec = '[%d]' % n_, [(1, [ord(ch) for ch in str(n_)])]
            elif inner_kind == 'name2':
                itext, ispec = '.%s.c' % kb.decode(), [(0, [ord(ch) for ch in kb.decode()]), (0, [99])]
            else:
                style = r.choice("'\".")
                itext = ('.' + kb.decode()) if style == '.' else '[%s%s%s]' % (style, kb.decode(), style)
                ispec = [(0 if style == '.' else ord(style), [ord(ch) for ch in kb.decode()])]
            fv = r.choice(pool) + r.choice([0, 0, 0.5, -0.5])
            lit = r.choice([repr(fv), '%g' % fv, ('+' if fv >= 0 else '') + repr(fv), '%de0' % fv if fv == int(fv) else repr(fv)])
            fv = float(lit)
            oc = r.randrange(6)
            text = '$[?(@' + itext + ['==', '!=', '<', '<=', '>', '>='][oc] + lit + ')]'
            kept = []
            for x in chain_children(body):
                got = inner_reach(ispec, [x])
                if got and got[0][0] in 'nj':
                    a = got[0][1] if got[0][0] == 'n' else float(got[0][1])
                    ok_ = [a == fv, a != fv, a < fv, a <= fv, a > fv, a >= fv][oc]
                else:
                    ok_ = oc == 1
                if ok_:
                    kept.append(x)
            c = Case('ct%d' % i, text.encode('utf-8'), [body], meta={'family': 'coq-comparison-filter', 'nsteps': 1})
            c.keyc = [(8, ispec, oc, [ord(ch) for ch in lit])]
            want[c.id] = 'ok:[' + ','.join(core.doc_render(v) for v in kept) + ']' if kept else 'fail'
            cases.append(c)
            if r.random() < 0.5:
                # the same operand against several literals joined by || (or &&): the union (intersection) of the single
                # comparisons, in both decodings of the members (a chain of == on one name is a membership test)
                eqs = r.random() < 0.7
                parts = []
                seen_nums = [(g0[0][1] if g0[0][0] == 'n' else float(g0[0][1])) for x0 in chain_children(body) for g0 in [inner_reach(ispec, [x0])] if g0 and g0[0][0] in 'nj']
                for _j in range(r.randint(2, 4)):
                    fv2 = (r.choice(seen_nums) if seen_nums and r.random() < 0.7 else r.choice(pool)) + r.choice([0, 0, 0, 0.5])
                    lit2 = r.choice([repr(fv2), '%g' % fv2])
                    parts.append((0 if eqs else r.randrange(6), lit2, float(lit2)))
                disj = eqs or r.random() < 0.6
                text2 = '$[?(' + ('||' if disj else '&&').join('@' + itext + ['==', '!=', '<', '<=', '>', '>='][o_] + l_ for o_, l_, _f in parts) + ')]'
                kept2 = []
                for x in chain_children(body):
                    got = inner_reach(ispec, [x])
                    vs = []
                    for o_, l_, f_ in parts:
                        if got and got[0][0] in 'nj':
                            a = got[0][1] if got[0][0] == 'n' else float(got[0][1])
                            vs.append([a == f_, a != f_, a < f_, a <= f_, a > f_, a >= f_][o_])
                        else:
                            vs.append(o_ == 1)
                    if (any(vs) if disj else all(vs)):
                        kept2.append(x)
                bqs = None
                if len(ispec) >= 2 and r.random() < 0.6:
                    # a lower and an upper bound joined by &&, one on the operand and one on a PREFIX of its path (another operand
                    # altogether): the intersection of the two selections, whichever comes first
                    short_t, short_s = itext[:itext.rfind('.')], ispec[:-1]
                    lo = (r.choice([4, 5]), r.choice([repr(v_ - 1) for v_ in seen_nums[:3]] or ['0']))
                    hi = (r.choice([2, 3]), r.choice([repr(v_ + 1) for v_ in seen_nums[:3]] or ['9']))
                    ops_ = [(itext, ispec) + lo, (short_t, short_s) + hi]
                    if r.random() < 0.5:
                        ops_ = [(itext, ispec) + hi, (short_t, short_s) + lo]
                    if r.random() < 0.5:
                        ops_.reverse()
                    disj = False
                    text2 = '$[?(' + '&&'.join('@' + t_ + ['==', '!=', '<', '<=', '>', '>='][o_] + l_ for t_, s_, o_, l_ in ops_) + ')]'
                    kept2 = []
                    for x in chain_children(body):
                        vs = []
                        for t_, s_, o_, l_ in ops_:
                            got = inner_reach(s_, [x])
                            f_ = float(l_)
                            if got and got[0][0] in 'nj':
                                a = got[0][1] if got[0][0] == 'n' else float(got[0][1])
                                vs.append([a == f_, a != f_, a < f_, a <= f_, a > f_, a >= f_][o_])
                            else:
                                vs.append(o_ == 1)
                        if all(vs):
                            kept2.append(x)
                    bqs = [('c', s_, o_, [ord(ch) for ch in l_]) for t_, s_, o_, l_ in ops_]
                c2 = Case('cu%d' % i, text2.encode('utf-8'), [body], meta={'family': 'coq-comparison-filter', 'nsteps': 1})
                if bqs is None:
                    bqs = [('c', ispec, o_, [ord(ch) for ch in l_]) for o_, l_, _f in parts]
                c2.keyc = [(10, [[b] for b in bqs] if disj else [bqs])]
                want[c2.id] = 'ok:[' + ','.join(core.doc_render(v) for v in kept2) + ']' if kept2 else 'fail'
                cases.append(c2)
        go, mo = both_sides(cases)
        for c, g_, m in zip(cases, go, mo):
            res.evaluations += 1
            hp = harness_problem(g_) or harness_problem(m)
            if hp:
                res.violation('broken-correspondence', 'harness:' + hp[:60], hp, c)
                continue
            if m.get('KP') != '1':
                res.violation('broken-correspondence', 'harness:fchain_path', 'the path sent is not Coq fchain_path of its steps', c)
                continue
            r0 = g_.get('R0', '')
            got = r0 if r0.startswith('ok:') else ('fail' if cls_of(r0) in ('mne', 'tum') else r0)
            if got != want[c.id] or g_.get('R0') != m.get('R0'):
                res.disagreements_checked += 1
                res.violation('concrete', sig_of(c, 'comparison-from-text'),
                              '%r keeps the members whose number stands in the relation to the literal' % (c.path,), c,
                              expected=want[c.id], observed={'impl': g_.get('R0'), 'model': m.get('R0')})
            if want[c.id] != 'fail' and len(c.docs[0][1]) >= 2:
                res.nontrivial.add((c.path, core.doc_render(c.docs[0])))
            res.dist['text:' + cls_of(r0 or 'P')] += 1

    def native_numbers(self, ctx, res, g, budget_scale):
        """documents assembled in Go code holding native Go numbers (int, int64, uint8, float32) next to float64 and json.Number
        members of the SAME numeric value, compared with that value: <= must be < or ==, >= must be > or ==, != the complement of ==,
        whatever each operator makes of a native number (the model: a native number is not a JSON number and matches nothing)"""
        r = g.r
        native = {'int3': 3.0, 'int4': 4.0, 'int64': 5.0, 'uint8': 6.0, 'float32': 1.5}
        groups = []
        for i in range(ctx.n(25, 250) * budget_scale):
            kinds = r.sample(sorted(native), r.randint(1, 3))
            lit = native[r.choice(kinds)]
            vals = [('x', k) for k in kinds] + [('n', lit), ('n', lit - 1), ('n', lit + 1), ('j', repr(lit)), ('s', b'3')][:r.randint(2, 5)]
            r.shuffle(vals)
            wrap = r.random() < 0.5
            body = ('a', [('o', [(b'a', v), (b'u', ('n', float(j)))]) for j, v in enumerate(vals)] if wrap else vals)
            opnd = '@.a' if wrap else '@'
            lt_ = repr(lit) if r.random() < 0.5 else '%g' % lit
            cs = {op: Case('nn%d_%s' % (i, nm), ('$[?(%s %s %s)]' % (opnd, op, lt_)).encode(), [body], meta={'family': 'native-numbers'})
                  for op, nm in (('<', 'lt'), ('<=', 'le'), ('==', 'eq'), ('>=', 'ge'), ('>', 'gt'), ('!=', 'ne'))}
            groups.append(cs)
        flat = [c for cs in groups for c in cs.values()]
        go, mo = both_sides(flat)
        by_id = {c.id: (g_, m) for c, g_, m in zip(flat, go, mo)}
        for cs in groups:
            res.evaluations += 1
            sel = {}
            bad = False
            for op, c in cs.items():
                g_, m = by_id[c.id]
                hp = harness_problem(g_) or harness_problem(m)
                if hp:
                    res.violation('broken-correspondence', 'harness:' + hp[:60], hp, c)
                    bad = True
                    break
                a, b = g_.get('R0', ''), m.get('R0', '')
                if (a if a.startswith('ok:') else cls_of(a)) != (b if b.startswith('ok:') else cls_of(b)):
                    res.disagreements_checked += 1
                    res.violation('concrete', sig_of(c, 'native-number-vs-model'), '%r over native Go numbers differs from the model' % (c.path,), c, expected=b, observed=a)
                sel[op] = values_of(a) if a.startswith('ok:') else []
            if bad:
                continue
            allm = [core.doc_render(v) for v in cs['<'].docs[0][1]]
            def as_set(l):
                return sorted(l)
            if as_set(sel['<=']) != as_set(set(sel['<']) | set(sel['=='])) or as_set(sel['>=']) != as_set(set(sel['>']) | set(sel['=='])):
                res.violation('concrete', sig_of(cs['<='], 'le-is-lt-or-eq'), '<= / >= must select what < / > or == select: %r' % (cs['<='].path,), cs['<='],
                              expected={'<': sel['<'], '==': sel['==']}, observed={'<=': sel['<='], '>=': sel['>=']})
            if as_set(sel['!=']) != as_set(set(allm) - set(sel['=='])):
                res.violation('concrete', sig_of(cs['!='], 'ne-is-complement'), '!= must select the members == does not: %r' % (cs['!='].path,), cs['!='],
                              expected=sorted(set(allm) - set(sel['=='])), observed=sel['!='])
            res.nontrivial.add((cs['<='].path, core.doc_render(cs['<='].docs[0])))
            res.dist['native-numbers'] += 1

    def run(self, ctx, res, budget_scale=1, seed_offset=0):
        g = gens.G(ctx.seed * 23 + 9 + seed_offset)
        r = g.r
        n = ctx.n(2500, 50000) * budget_scale
        self.from_text(ctx, res, gens.G(ctx.seed * 29 + 99 + seed_offset), budget_scale)
        self.native_numbers(ctx, res, gens.G(ctx.seed * 31 + 7 + seed_offset), budget_scale)
        sp = gens.Spelling()
        fams = []
        for i in range(n):
            jn = r.random() < 0.15
            ms = distinct_members(g, jn)
            if r.random() < 0.6:
                body = ('a', ms)
            else:
                body = ('o', list(zip(r.sample(gens.KEY_POOL, len(ms)), ms)))
            top = [(b'list', body)] + [(k, g.scalar(jn)) for k in r.sample(gens.KEY_POOL[:6], r.randint(0, 3))]
            doc = ('o', top)
            k = r.random()
            if k < 0.35:
                A = gens.render_fexpr(g.gen_fexpr(body, doc, 1), sp)
                B = gens.render_fexpr(g.gen_fexpr(body, doc, 1), sp)
                exprs = {'A': A, 'B': B, 'and': b'(' + A + b') && (' + B + b')', 'or': b'(' + A + b') || (' + B + b')'}
                kind = 'andor'
            elif k < 0.5:
                e = g.gen_fexpr(body, doc, 0)
                while e[0] not in ('exists', 'not'):
                    e = g.gen_fexpr(body, doc, 0)
                p = gens.render_operand(e[1], sp)
                exprs = {'p': p, 'notp': b'!' + p}
                if r.random() < 0.5:
                    # the same pair behind a disjunct that never holds and contains non-ASCII text before the `!`
                    u = r.choice(['\u00e9', '\u65e5\u672c', '\U0001f600', '\u00df\u00e9']).encode('utf-8')
                    exprs['u_p'] = b"@.zz9 == '" + u + b"' || " + p
                    exprs['u_notp'] = b"@.zz9 == '" + u + b"' || !" + p
                kind = 'not'
            else:
                e = g.gen_fexpr(body, doc, 0)
                while e[0] != 'cmp':
                    e = g.gen_fexpr(body, doc, 0)
                _, op, lhs, rhs = e
                if r.random() < 0.5:
                    lhs, rhs = rhs, lhs
                L, R = gens.render_operand(lhs, sp), gens.render_operand(rhs, sp)
                exprs = {}
                for o in ('==', '!=', '<', '<=', '>', '>='):
                    exprs['l' + o] = L + b' ' + o.encode() + b' ' + R
                    exprs['r' + o] = R + b' ' + o.encode() + b' ' + L
                kind = 'cmp:%s:%s' % (lhs[0], rhs[0])
                exprs['_numlit'] = (lhs[0] == 'lit' and lhs[1][0] == 'n') or (rhs[0] == 'lit' and rhs[1][0] == 'n')
                if exprs['_numlit'] and not jn and r.random() < 0.4:
                    # against a number literal: some numeric leaves of the members become a Go float64 NaN (never when two
                    # paths are compared: reflect.DeepEqual's identity shortcut on a shared container is not modelled)
                    ms2 = plant_nan(r, ms)
                    body2 = ('a', ms2) if body[0] == 'a' else ('o', [(k, m2) for (k, _), m2 in zip(body[1], ms2)])
                    doc = ('o', [(k, body2 if k == b'list' else v) for k, v in top])
            fams.append((doc, kind, exprs))
        # families from the reference-value generator: comparisons that really hit
        for i in range(n // 3):
            doc, es = gens.refs_family(g, r.random() < 0.4)
            e = r.choice(es)
            m = re.match(rb'(.+?) (==|!=|<=|>=|<|>) (.+)$', e)
            if m and b'&&' not in e and b'||' not in e:
                L, R = m.group(1), m.group(3)
                exprs = {}
                for o in ('==', '!=', '<', '<=', '>', '>='):
                    exprs['l' + o] = L + b' ' + o.encode() + b' ' + R
                    exprs['r' + o] = R + b' ' + o.encode() + b' ' + L
                exprs['_numlit'] = bool(re.fullmatch(rb'-?[0-9.]+', L) or re.fullmatch(rb'-?[0-9.]+', R))
                fams.append((doc, 'cmp:refs', exprs))
            else:
                B = r.choice(es)
                fams.append((doc, 'andor', {'A': e, 'B': B, 'and': b'(' + e + b') && (' + B + b')', 'or': b'(' + e + b') || (' + B + b')'}))
        # A && B where B is a path-to-path == / != whose `$` path is absent: B is not judged member by member (it answers for
        # the whole list), so evaluating it only on the members A kept changes the answer
        for i in range(max(40, n // 60)):
            cut = r.randint(0, 3)
            ms = []
            for j in range(r.randint(2, 6)):
                m = [(b'a', ('n', float(j))), (b'u', ('n', float(100 + j)))]
                if (j <= cut and r.random() < 0.8) or r.random() < 0.15:
                    m.append((b'x', ('n', float(5 + j))))
                r.shuffle(m)
                ms.append(('o', m))
            body = ('a', ms) if r.random() < 0.7 else ('o', list(zip(r.sample(gens.KEY_POOL, len(ms)), ms)))
            doc = ('o', [(b'list', body), (b'present', ('n', 5.0))])
            A = r.choice([b'@.a > %d' % cut, b'@.a >= %d' % (cut + 1), b'%d < @.a' % cut, b'!@.x', b'@.a > %d || @.zz' % cut])
            ref = r.choice([b'$.missing', b'$.missing', b'$.present', b'$.list.nope'])
            op = r.choice([b'==', b'!='])
            B = (b'@.x ' + op + b' ' + ref) if r.random() < 0.5 else (ref + b' ' + op + b' @.x')
            fams.append((doc, 'andor', {'A': A, 'B': B, 'and': b'(' + A + b') && (' + B + b')', 'or': b'(' + A + b') || (' + B + b')'}))
        # chains of three and four `||` (and `&&`) whose operands overlap: A || B || C is the union of A || B and C, whatever the overlap
        for i in range(max(60, n // 40)):
            ms = []
            for j in range(r.randint(2, 6)):
                m = [(kk, ('n', float(r.randint(0, 3)))) for kk in [b'a', b'b', b'c', b'd'] if r.random() < 0.45]
                m.append((b'id', ('n', float(j))))
                r.shuffle(m)
                ms.append(('o', m))
            body = ('a', ms) if r.random() < 0.7 else ('o', list(zip(r.sample(gens.KEY_POOL, len(ms)), ms)))
            doc = ('o', [(b'list', body), (b'one', ('n', 1.0))])
            ops_ = r.sample([b'@.a', b'@.b', b'@.c', b'@.d', b'@.a > 1', b'!@.b', b'@.c == $.one', b'@.d <= 1'], r.choice([3, 3, 4]))
            joiner = b' || ' if r.random() < 0.75 else b' && '
            A, B = joiner.join(ops_[:-1]), ops_[-1]
            fams.append((doc, 'andor', {'A': A, 'B': B, 'and': (A + b' && ' + B) if joiner == b' && ' else (b'(' + A + b') && ' + B),
                                        'or': (A + b' || ' + B) if joiner == b' || ' else (b'(' + A + b') || ' + B)}))
        # A && B / A || B of two plain existence tests, one of them ending in a step that may select several values (wildcard, slice,
        # union, `..`, a nested filter) and that finds NOTHING for some members (an empty array or object, a scalar, no such member)
        for i in range(max(40, n // 60)):
            ms = []
            for j in range(r.randint(2, 6)):
                m = [(b'id', ('n', float(j)))]
                if r.random() < 0.7:
                    m.append((b'a', ('n', float(10 + j))))
                bv = r.choice([('a', []), ('a', [('n', 7.0)]), ('a', [('n', 1.0), ('n', 2.0), ('n', 3.0)]), ('o', []), ('o', [(b'c', ('n', 1.0))]),
                               ('o', [(b'c', ('n', 1.0)), (b'd', ('n', 2.0))]), ('n', 5.0), None])
                if bv is not None:
                    m.append((b'b', bv))
                r.shuffle(m)
                ms.append(('o', m))
            body = ('a', ms) if r.random() < 0.7 else ('o', list(zip(r.sample(gens.KEY_POOL, len(ms)), ms)))
            doc = ('o', [(b'list', body)])
            A = r.choice([b'@.a', b'@.id', b'@.a', b'@.b'])
            B = r.choice([b'@.b[*]', b'@.b.*', b'@.b[1:3]', b'@.b..c', b"@.b['c','d']", b'@.b[0,1]', b'@.b[?(@)]', b'@.b[1:]', b'@..c'])
            if r.random() < 0.4:
                A, B = B, A
            fams.append((doc, 'andor', {'A': A, 'B': B, 'and': A + b' && ' + B, 'or': A + b' || ' + B}))
        cases, index = [], []
        for fi, (doc, kind, exprs) in enumerate(fams):
            doc2 = reroll_refs(r, doc)          # a second document for the SAME parsed function
            fams[fi] = (doc, kind, exprs, doc2)
            for name, e in exprs.items():
                if name.startswith('_'):
                    continue
                cases.append(Case('f%d_%s' % (fi, name), b'$.list[?(' + e + b')]', [doc, doc2]))
                index.append((fi, name))
        corpus = load_corpus(self.id, ctx.root) if seed_offset == 0 else []
        go, mo = both_sides(cases + corpus)
        sel = collections.defaultdict(dict)
        for (c, g_, m), ix in zip(zip(cases + corpus, go, mo), index + [None] * len(corpus)):
            res.evaluations += 1
            hp = harness_problem(g_) or harness_problem(m)
            if hp:
                res.violation('broken-correspondence', 'harness:' + hp[:60], hp, c)
                continue
            for di in range(len(c.docs)):
                a = g_.get('R%d' % di, 'P:' + g_.get('P', ''))
                b = m.get('R%d' % di, 'P:' + m.get('P', ''))
                if (a if a.startswith('ok:') else cls_of(a)) != (b if b.startswith('ok:') else cls_of(b)):
                    res.disagreements_checked += 1
                    res.violation('concrete', sig_of(c, 'filter-vs-model'), 'selection of %r differs from the model (document %d)' % (c.path, di), c, expected=b, observed=a)
                if crashy(a) or crashy(g_.get('P', 'ok')):
                    res.violation('concrete', sig_of(c, 'filter-crash'), 'outcome %s for %r' % (a[:100], c.path), c, observed=a)
                if ix is not None:
                    sel[(ix[0], di)][ix[1]] = selection(a) if g_.get('P') == 'ok' else None
                    sel[(ix[0], di)]['case:' + ix[1]] = c
        for fi, (doc0, kind, exprs, doc2) in enumerate(fams):
          for di, doc in enumerate((doc0, doc2)):
            s = sel.get((fi, di), {})
            lst = [v for k, v in doc[1] if k == b'list'][0] if doc[0] == 'o' else ('a', [])
            members = [core.doc_render(m) for m in (lst[1] if lst[0] == 'a' else [v for _, v in sorted(lst[1])])]

            def order(xs):
                return [m for m in members if m in set(xs)]

            def check(name, got, want, what):
                if got is None or want is None:
                    return
                if got != want:
                    res.violation('concrete', sig_of(s['case:' + name], 'boolean-algebra:' + what),
                                  '%s violated by %r (document %d of the parsed function)' % (what, s['case:' + name].path, di), s['case:' + name], expected=want, observed=got,
                                  extra={'doc_index': di})
                elif len(members) >= 2 and 0 < len(got) < len(members):
                    res.nontrivial.add((s['case:' + name].path, core.doc_render(doc)))
                    if len(res.samples) < 6:
                        res.sample({'law': what, 'filter': s['case:' + name].path.decode('utf-8', 'replace'),
                                    'members': len(members), 'selected': len(got)})
            if di == 0:
                res.dist[kind] += 1
            if kind == 'andor':
                A, B = s.get('A'), s.get('B')
                if A is not None and B is not None:
                    check('and', s.get('and'), order(set(A) & set(B)), 'A && B = intersection')
                    check('or', s.get('or'), order(set(A) | set(B)), 'A || B = union')
            elif kind == 'not':
                p = s.get('p')
                if p is not None:
                    check('notp', s.get('notp'), order(set(members) - set(p)), '!path = complement')
            else:
                for side in 'lr':
                    eq = s.get(side + '==')
                    if eq is not None:
                        check(side + '!=', s.get(side + '!='), order(set(members) - set(eq)), 'x != y = complement of x == y')
                for o, mo_ in (('==', '=='), ('!=', '!='), ('<', '>'), ('<=', '>='), ('>', '<'), ('>=', '<=')):
                    check('r' + mo_, s.get('r' + mo_), s.get('l' + o), 'mirrored operands (a %s b vs b %s a)' % (o, mo_))
                if exprs.get('_numlit'):
                    for side in 'lr':
                        lt, le, eq, gt, ge = (s.get(side + o) for o in ('<', '<=', '==', '>', '>='))
                        if lt is not None and eq is not None:
                            check(side + '<=', le, order(set(lt) | set(eq)), '<= is < or ==')
                        if gt is not None and eq is not None:
                            check(side + '>=', ge, order(set(gt) | set(eq)), '>= is > or ==')

    def replay(self, ctx, res, v):
        replay_generic(self, ctx, res, v, lambda o, c: {k: (x if x.startswith('ok:') else cls_of(x)) for k, x in o.items() if k[0] in 'PR'}, 'selection')
        if 'expected' in v and isinstance(v['expected'], list):
            c = case_from_desc(v['case'])
            g_ = core.run_go([c])[0]
            k = 'R%d' % v.get('doc_index', 0)
            if selection(g_.get(k, '')) != v['expected']:
                res.violation('concrete', 'replay', 'the set identity still fails: selected %s, identity requires %s' % (selection(g_.get(k, '')), v['expected']), c)


# =======================================================================================
JSON_TYPE = {'n': 'number', 'j': 'number', 's': 'string', 'b': 'bool', 'z': 'null', 'a': 'array', 'o': 'object', 'x': 'foreign'}


@register
class C10(Prop):
    id = 'C10'
    rule = ('comparison filters (six operators, regex; literal/@/$ operands in both orders) over containers whose '
            'members hold every JSON type, each document evaluated in both decodings (float64 and json.Number with '
            "Go's shortest spelling): the selections must be equal; for `@.k OP literal` every selected member's "
            'operand must have the literal\'s JSON type (ordering: number, regex: string); all compared with the model. '
            'Non-trivial: >= 1 member selected and >= 2 JSON types under the compared operand')
    trusted = TRUSTED_EVAL + ['json.Number.Float64() is modelled by the exact value of the spelling']

    def from_text(self, ctx, res, g, budget_scale):
        """literal comparisons written as Coq's fchain_path (one FQ step): `$[?(@.k == 'text')]`, `== true`, `== null`, `!=`, and
        numbers with all six operators, over members holding every JSON type, in BOTH decodings of the same document: the
        selection is computed from the document (a literal matches only values of its own JSON type; != is the complement)
        and must be the same for float64 and json.Number"""
        r = g.r
        cases, want = [], {}
        for i in range(ctx.n(300, 3000) * budget_scale):
            num_sp = r.choice(['10', '2.5', '0', '-1', '100', '1e2', '3'])
            leaves = [('s', num_sp.encode()), ('s', b'text'), ('s', b''), ('b', True), ('b', False), ('z',), ('N', num_sp), ('N', '7'), ('a', []), ('o', [])]
            ms = []
            for j in range(r.randint(1, 6)):
                lf = r.choice(leaves)
                ms.append(('o', [(b'a', lf), (b'u', ('n', float(j)))]) if r.random() < 0.85 else ('o', [(b'u', ('n', float(j)))]))
            kind = r.choice('ssbnNRR')
            ne = r.random() < 0.35
            lim = None
            if kind == 'R':
                # an ordering against the number a `$` path reaches (bq BCR): `$.xs[?(@.a OP $.lim)]`, in both decodings
                lim = r.choice([('N', num_sp), ('N', '7'), ('N', '2.5'), ('N', '7'), ('s', b'7'), ('z',), None, ('a', [('N', '7')])])
                oc = r.randrange(2, 6)
                bqspec = ('cr', [(0, [97])], oc, [(0, [108, 105, 109])])
                same = None
            elif kind == 's':
                qch = r.choice("'\"")
                cand = r.choice([num_sp, 'text', '', 'true', 'null', '7'])
                litt, bqspec = qch + cand + qch, ('l', [(0, [97])], ne, ('s', ord(qch), [ord(ch) for ch in cand]))
                same = (lambda lf: lf[0] == 's' and lf[1] == cand.encode())
            elif kind == 'b':
                bv, spi = r.random() < 0.5, r.randrange(3)
                litt, bqspec = [['false', 'False', 'FALSE'], ['true', 'True', 'TRUE']][bv][spi], ('l', [(0, [97])], ne, ('b', 1 if bv else 0, spi))
                same = (lambda lf: lf[0] == 'b' and lf[1] == bv)
            elif kind == 'n':
                spi = r.randrange(3)
                litt, bqspec = ['null', 'Null', 'NULL'][spi], ('l', [(0, [97])], ne, ('n', spi))
                same = (lambda lf: lf[0] == 'z')
            else:
                oc = 1 if ne else 0
                litt, bqspec = num_sp, ('c', [(0, [97])], oc, [ord(ch) for ch in num_sp])
                same = (lambda lf: lf[0] == 'N' and float(lf[1]) == float(num_sp))
            keep = []
            if kind == 'R':
                text = '$.xs[?(@.a%s$.lim)]' % ['==', '!=', '<', '<=', '>', '>='][oc]
                if lim is not None and lim[0] == 'N':
                    fv = float(lim[1])
                    for m_ in ms:
                        lf = dict(m_[1]).get(b'a')
                        if lf is not None and lf[0] == 'N':
                            a_ = float(lf[1])
                            if [a_ == fv, a_ != fv, a_ < fv, a_ <= fv, a_ > fv, a_ >= fv][oc]:
                                keep.append(m_)
            else:
                text = '$[?(@.a%s%s)]' % ('!=' if ne else '==', litt)
                for m_ in ms:
                    lf = dict(m_[1]).get(b'a')
                    eq = lf is not None and same(lf)
                    if (not eq) if ne else eq:
                        keep.append(m_)

            def dec(v, jn):
                if v[0] == 'N':
                    return ('j', v[1]) if jn else ('n', float(v[1]))
                if v[0] == 'a':
                    return ('a', [dec(x, jn) for x in v[1]])
                if v[0] == 'o':
                    return ('o', [(k, dec(x, jn)) for k, x in v[1]])
                return v
            for jn in (False, True):
                body = ('a', [dec(m_, jn) for m_ in ms])
                if kind == 'R':
                    body = ('o', [(b'xs', body)] + ([(b'lim', dec(lim, jn))] if lim is not None else []))
                c = Case('lt%d_%d' % (i, jn), text.encode('utf-8'), [body], meta={'family': 'coq-literal-comparison', 'nsteps': 1})
                c.keyc = ([(0, [120, 115])] if kind == 'R' else []) + [(10, [[bqspec]])]
                want[c.id] = [core.doc_render(dec(m_, jn)) for m_ in keep]
                cases.append(c)
        go, mo = both_sides(cases)
        for c, g_, m in zip(cases, go, mo):
            res.evaluations += 1
            hp = harness_problem(g_) or harness_problem(m)
            if hp:
                res.violation('broken-correspondence', 'harness:' + hp[:60], hp, c)
                continue
            if m.get('KP') != '1':
                res.violation('broken-correspondence', 'harness:fchain_path', 'the path sent is not Coq fchain_path of its steps', c)
                continue
            r0 = g_.get('R0', '')
            got = values_of(r0) if r0.startswith('ok:') else []
            if got != want[c.id] or (r0.startswith('ok:') and not want[c.id]) or g_.get('R0') != m.get('R0'):
                res.disagreements_checked += 1
                res.violation('concrete', sig_of(c, 'literal-comparison-from-text'),
                              '%r selects the members whose value has the type and content of the literal (!= : the others)' % (c.path,), c,
                              expected=want[c.id], observed={'impl': r0, 'model': m.get('R0')})
            if want[c.id]:
                res.nontrivial.add((c.path, core.doc_render(c.docs[0])))
            res.dist['text:' + cls_of(r0 or 'P')] += 1

    def run(self, ctx, res, budget_scale=1, seed_offset=0):
        g = gens.G(ctx.seed * 29 + 10 + seed_offset)
        r = g.r
        n = ctx.n(4000, 80000) * budget_scale
        self.from_text(ctx, res, gens.G(ctx.seed * 41 + 55 + seed_offset), budget_scale)
        sp = gens.Spelling()
        cases = load_corpus(self.id, ctx.root) if seed_offset == 0 else []
        ncorp = len(cases)
        meta = [None] * ncorp
        for i in range(n):
            ms = distinct_members(g, False)
            body = ('a', ms) if r.random() < 0.6 else ('o', list(zip(r.sample(gens.KEY_POOL, len(ms)), ms)))
            top = [(b'list', body)] + [(k, g.scalar(False)) for k in r.sample(gens.KEY_POOL[:6], r.randint(0, 3))]
            doc = ('o', top)
            k = r.random()
            if k < 0.5:
                # @.key OP literal (either order): the type-strictness oracle applies
                key = g.pick_key(r.choice(ms) if ms else None)
                lit = g.gen_literal(r.choice(ms) if ms else None)
                op = r.choice(['==', '!=', '<', '<=', '>', '>=', '=~'])
                if op in ('<', '<=', '>', '>=') and lit[0] != 'n':
                    lit = ('n', r.choice(gens.NUM_POOL[:10]))
                operand = b'@' + gens.render_step(('name', key, 'sq'), sp)
                if op == '=~':
                    text = operand + b' =~ /' + r.choice([b'^a', b'b$', b'.', b'x', b'^$', b'1', b'^ab$', b'^a$', b'^bc$', b'^x$', b'^10$', b'^1$']) + b'/'
                    lit = ('s', b'')
                elif r.random() < 0.5:
                    text = operand + b' ' + op.encode() + b' ' + gens.render_literal(lit, sp)
                else:
                    text = gens.render_literal(lit, sp) + b' ' + op.encode() + b' ' + operand
                info = (key, op, lit)
            else:
                e = g.gen_fexpr(body, doc, 0)
                while e[0] not in ('cmp', 're'):
                    e = g.gen_fexpr(body, doc, 0)
                text = gens.render_fexpr(e, sp)
                info = None
            cases.append(Case('t%d' % i, b'$.list[?(' + text + b')]', [doc, to_jnum(doc)]))
            meta.append((info, ms))
        for i in range(n // 2):
            doc, es = gens.refs_family(g, False)
            cases.append(Case('r%d' % i, b'$.list[?(' + r.choice(es) + b')]', [doc, to_jnum(doc)]))
            meta.append((None, []))
        # numbers compare by value, exactly: neighbours a few units in the last place apart are different numbers
        import struct
        def ulp_shift(x, k):
            return struct.unpack('<d', struct.pack('<q', struct.unpack('<q', struct.pack('<d', x))[0] + k))[0]
        for i in range(max(60, n // 40)):
            base = r.choice([0.3, 0.1, 1.1, 2.5e-7, 123456.789, 1e15 + 0.3, 3.0])
            vals = [base] + [ulp_shift(base, k) for k in r.sample([-4, -3, -2, -1, 1, 2, 3, 4], r.randint(2, 5))] + [base * 2]
            r.shuffle(vals)
            ms = [('o', [(b'k', ('n', v)), (b'u', ('n', float(j)))]) for j, v in enumerate(vals)]
            doc = ('o', [(b'list', ('a', ms)), (b'ref', ('n', base))])
            lit = repr(base).encode()
            op = r.choice([b'==', b'!=', b'<', b'<=', b'>', b'>='])
            text = r.choice([b'@.k ' + op + b' ' + lit, lit + b' ' + op + b' @.k', b'@.k ' + op + b' $.ref', b'$.ref ' + op + b' @.k'])
            cases.append(Case('y%d' % i, b'$.list[?(' + text + b')]', [doc, to_jnum(doc)]))
            meta.append((None, []))
        # regular expressions are matched by the regexp package on strings only: literal patterns, anchored or not, against
        # strings that equal, contain, start or end with the literal, and against non-strings spelled like it
        for i in range(max(60, n // 40)):
            lit = r.choice([b'ab', b'a', b'x', b'10', b'bc', b'1'])
            pat = r.choice([b'^' + lit + b'$', b'^' + lit + b'$', b'^' + lit, lit + b'$', lit, b'^(' + lit + b')$'])
            vals = [('s', lit), ('s', b'c' + lit), ('s', lit + b'c'), ('s', b'x' + lit + b'x'), ('s', lit + lit), ('s', b''), ('z',), ('b', True)]
            if lit.isdigit():
                vals += [('n', float(lit)), ('n', float(lit) * 10 + 1)]
            r.shuffle(vals)
            ms = [('o', [(b'k', v), (b'u', ('n', float(j)))]) for j, v in enumerate(vals[:r.randint(3, 8)])]
            doc = ('o', [(b'list', ('a', ms) if r.random() < 0.6 else ('o', list(zip(r.sample(gens.KEY_POOL, len(ms)), ms))))])
            cases.append(Case('x%d' % i, b'$.list[?(@.k =~ /' + pat + b'/)]', [doc, to_jnum(doc)]))
            meta.append((None, []))
        # patterns that match EVERY text (the empty pattern, `.*` and its kin): still a test on strings — numbers, booleans, null and
        # containers under the operand are not selected
        for i, pat in enumerate([b'', b'.*', b'(?s).*', b'.*?', b'^.*$', b'x*', b'(.*)', b'.*.*', b'^', b'$']):
            for rep in range(1 if ctx.quick else 3):
                vals = [('s', b'ab'), ('s', b''), ('n', 10.0), ('n', 0.0), ('z',), ('b', True), ('b', False), ('a', []), ('o', []), ('a', [('s', b'ab')]), ('s', b'10')]
                r.shuffle(vals)
                ms = [('o', [(b'k', v), (b'u', ('n', float(j)))]) for j, v in enumerate(vals[:r.randint(6, 11)])] + [('o', [(b'u', ('n', 99.0))])]
                doc = ('o', [(b'list', ('a', ms) if (i + rep) % 2 == 0 else ('o', list(zip(r.sample(gens.KEY_POOL, len(ms)), ms))))])
                form = [b'$.list[?(@.k =~ /%s/)]', b'$.list[?(@.k =~ /%s/ && @.u >= 0)].u', b'$.list[?(@.k =~ /%s/ || @.u > 98)].u'][(i + rep) % 3]
                cases.append(Case('xa%d_%d' % (i, rep), form % pat, [doc, to_jnum(doc)]))
                meta.append((None, []))
        go, mo = both_sides(cases)
        for c, g_, m, mt in zip(cases, go, mo, meta):
            res.evaluations += 1
            hp = harness_problem(g_) or harness_problem(m)
            if hp:
                res.violation('broken-correspondence', 'harness:' + hp[:60], hp, c)
                continue
            obs = []
            for k in range(len(c.docs)):
                a = g_.get('R%d' % k, 'P:' + g_.get('P', ''))
                b = m.get('R%d' % k, 'P:' + m.get('P', ''))
                obs.append(a)
                if (a if a.startswith('ok:') else cls_of(a)) != (b if b.startswith('ok:') else cls_of(b)):
                    res.disagreements_checked += 1
                    res.violation('concrete', sig_of(c, 'compare-vs-model'), 'selection of %r differs from the model (decoding %d)' % (c.path, k), c,
                                  expected=b, observed=a)
                if crashy(a):
                    res.violation('concrete', sig_of(c, 'compare-crash'), 'outcome %s for %r' % (a[:100], c.path), c, observed=a)
            if g_.get('P') != 'ok' or len(obs) < 2:
                continue
            s0, s1 = selection(obs[0]), selection(obs[1])
            if s0 is not None and s1 is not None and s0 != [canon_nums(x) for x in s1]:
                res.violation('concrete', sig_of(c, 'decode-dependent'),
                              '%r selects different members under float64 and json.Number decoding' % (c.path,), c,
                              expected=s0, observed=s1)
            if mt is None:
                continue
            info, ms = mt
            types = set()
            if info and s0 is not None:
                key, op, lit = info
                want_t = 'number' if op in ('<', '<=', '>', '>=') else ('string' if op == '=~' else JSON_TYPE[lit[0]])
                by_render = {core.doc_render(x): x for x in ms}
                for x in ms:
                    v = g.lookup(x, key)
                    types.add(JSON_TYPE[v[0]] if v is not None else 'missing')
                if op != '!=':
                    for sel in s0:
                        x = by_render.get(sel)
                        v = g.lookup(x, key) if x is not None else None
                        if v is None or JSON_TYPE[v[0]] != want_t:
                            res.violation('concrete', sig_of(c, 'type-coercion'),
                                          '%r selected a member whose operand is %s, not a %s' %
                                          (c.path, 'missing' if v is None else JSON_TYPE[v[0]], want_t), c, observed=sel)
            if s0 and (len(types) >= 2 or info is None):
                res.nontrivial.add((c.path, core.doc_render(c.docs[0])))
                if len(res.samples) < 5:
                    res.sample({'filter': c.path.decode('utf-8', 'replace'), 'doc': core.doc_json_text(c.docs[0])[:300],
                                'selected(float64)': len(s0), 'selected(json.Number)': len(s1 or [])})
            res.dist[cls_of(obs[0])] += 1

    def replay(self, ctx, res, v):
        c = case_from_desc(v['case'])
        go, mo = both_sides([c])
        print('implementation:', go[0])
        print('model         :', mo[0])
        pg = {k: (x if x.startswith('ok:') else cls_of(x)) for k, x in go[0].items() if k[0] in 'PR'}
        pm = {k: (x if x.startswith('ok:') else cls_of(x)) for k, x in mo[0].items() if k[0] in 'PR'}
        if pg != pm:
            res.violation('concrete', 'replay', 'differs from the model', c)
        if len(c.docs) == 2:
            s0, s1 = selection(go[0].get('R0', '')), selection(go[0].get('R1', ''))
            if s0 is not None and s1 is not None and s0 != [canon_nums(x) for x in s1]:
                res.violation('concrete', 'replay', 'decode-dependent selection', c)


# =======================================================================================
@register
class C12(Prop):
    id = 'C12'
    rule = ('generated paths with functions after every step kind and inside filter operands, evaluated once per mode '
            '(accessor off/on) with identical recording function sets: values after unwrapping, order, error and the '
            'argument logs must be equal; both modes also compared with the model. Non-trivial: a function or filter '
            'operand is present, or >= 2 results')
    trusted = TRUSTED_EVAL

    def run(self, ctx, res, budget_scale=1, seed_offset=0):
        g = gens.G(ctx.seed * 37 + 12 + seed_offset)
        n = ctx.n(6000, 60000) * budget_scale
        plain = mk_eval_cases(g, n, 'c', funcs=0.5, acc=0.0, jnum=0.15, filter_heavy=0.5)
        # the same path written without its `$` when it starts with a bracket (a filter first: its operands are built while
        # nothing is parked on the parser's stack)
        r = g.r
        extra = []
        for c in plain:
            if c.path.startswith(b'$[') and not c.path.startswith(b'$[*') and len(extra) < n // 10 and r.random() < 0.6:
                extra.append(Case('r' + c.id, c.path[1:], c.docs, c.filters, c.aggs, False, c.nocfg, c.mode, dict(c.meta, family='rootless-bracket')))
        # chains of functions with an aggregate at both ends: agg, one or more filter functions, agg (in the main path and inside
        # a filter operand) — every function must see plain values in both modes
        for i in range(max(60, n // 40)):
            nums = [('n', float(r.randint(0, 9))) for _ in range(r.randint(1, 4))]
            body = ('a', nums) if r.random() < 0.5 else ('o', list(zip(r.sample(gens.KEY_POOL[:8], len(nums)), nums)))
            doc = ('o', [(b'v', body), (b'w', ('a', [('o', [(b'b', body)]), ('o', [(b'b', ('a', [('n', 1.0)]))])]))])
            a1, a2 = r.choice(['amax', 'first', 'arr', 'cnt']), r.choice(['first', 'cnt', 'arr', 'amax'])
            fs = [r.choice(['twice', 'id', 'wrap', 'relay']) for _ in range(r.randint(0 if i % 3 == 0 else 1, 3))]
            chain = '.%s()' % a1 + ''.join('.%s()' % f for f in fs) + '.%s()' % a2 + ('.%s()' % r.choice(['id', 'twice']) if r.random() < 0.3 else '')
            if r.random() < 0.6:
                text = '$.v%s%s' % (r.choice(['.*', '[*]', '', '..*', '[*,*]', '[*,*,*]', '[0,*]']), chain)
            else:
                text = '$.w[?(@.b%s%s %s %d)]' % (r.choice(['.*', '[*]', '', '[*,*]', '[*,*,*]']), chain, r.choice(['>=', '==', '<', '!=']), r.randint(0, 4))
            extra.append(Case('fa%d' % i, text.encode(), [doc], sorted(set(fs + ['id', 'twice'])), sorted({a1, a2}), False, False, 'eval', {'family': 'agg-fun-agg', 'nsteps': 4}))
        # values that are themselves of the library's exported Accessor type (a document assembled from the results of an earlier
        # accessor-mode retrieval), handed on by functions in last position: like any other value, wrapped once in accessor mode
        for i in range(max(12, n // 300)):
            doc = ('o', [(b'h', ('a', [('n', 1.0), ('x', 'accessor'), ('s', b't'), ('x', 'accessor')])), (b'one', ('x', 'accessor'))])
            text = r.choice(['$.h[1].id()', '$.h[*].id()', '$.one.id()', '$.h.first()', '$.h[1:].first()', '$.h[1:2].arr()', '$.one.id().id()',
                             '$..one.id()', '$.h[?(@.id())].id()', '$.h[-1].id()'])
            extra.append(Case('ax%d' % i, text.encode(), [doc], ['id'], ['first', 'arr'], False, False, 'eval', {'family': 'accessor-typed-values', 'nsteps': 3}))
        plain += extra
        plain += load_corpus(self.id, ctx.root) if seed_offset == 0 else []
        for c in plain:
            c.acc = False
        accs = [Case('a' + c.id, c.path, c.docs, c.filters, c.aggs, True, c.nocfg, c.mode, c.meta) for c in plain]
        go, mo = both_sides(plain + accs)
        k = len(plain)
        for i, c in enumerate(plain):
            res.evaluations += 1
            gp, ga, mp, ma = go[i], go[i + k], mo[i], mo[i + k]
            hp = harness_problem(gp) or harness_problem(ga) or harness_problem(mp) or harness_problem(ma)
            if hp:
                res.violation('broken-correspondence', 'harness:' + hp[:60], hp, c)
                continue
            for x, y, label, cc in ((gp, mp, 'plain', c), (ga, ma, 'accessor', accs[i])):
                px = {kk: vv for kk, vv in x.items() if kk[0] in 'PRC' and kk != 'P'}
                py = {kk: vv for kk, vv in y.items() if kk[0] in 'PRC' and kk != 'P'}
                if px != py or pclass(x.get('P', '')) != pclass(y.get('P', '')):
                    res.disagreements_checked += 1
                    res.violation('concrete', sig_of(cc, 'mode-vs-model:' + label), '%s mode: %r differs from the model' % (label, c.path), cc,
                                  expected=py, observed=px)
            if gp.get('P') != ga.get('P'):
                res.violation('concrete', sig_of(c, 'mode-parse'), 'Parse outcome depends on accessor mode for %r' % (c.path,), c,
                              expected=gp.get('P'), observed=ga.get('P'))
                continue
            for kk in rkeys(gp, 'R'):
                a, b = gp[kk], unwrap_acc(ga.get(kk, ''))
                if a != b:
                    res.violation('concrete', sig_of(c, 'mode-values'), 'accessor mode changes the selection of %r' % (c.path,), c,
                                  expected=a, observed=ga.get(kk))
                ca, cb = gp.get('C' + kk[1:], ''), ga.get('C' + kk[1:], '')
                if ca != cb:
                    res.violation('concrete', sig_of(c, 'mode-calls'), 'user functions see different arguments in accessor mode for %r' % (c.path,), c,
                                  expected=ca, observed=cb)
                if ga.get(kk, '').startswith('ok:[') and not all(v.startswith('A(') for v in values_of(ga[kk])):
                    res.violation('concrete', sig_of(c, 'mode-unwrapped'), 'accessor mode returned a plain value for %r' % (c.path,), c, observed=ga[kk])
            r0 = gp.get('R0', '')
            if gp.get('C0') or b'?(' in c.path or (r0.startswith('ok:') and len(values_of(r0)) >= 2):
                res.nontrivial.add((c.path, core.doc_render(c.docs[0]) if c.docs else ''))
                if len(res.samples) < 5 and r0.startswith('ok:'):
                    res.sample({'path': c.path.decode('utf-8', 'replace'), 'plain': r0[:200], 'accessor': ga.get('R0', '')[:200], 'calls': gp.get('C0', '')[:200]})
            res.dist[cls_of(r0 or 'P')] += 1
        # no Config at all must behave like plain mode, whatever was parsed before (the runner precedes every
        # case with unrelated calls, among them rejected paths in accessor mode)
        idx = [i for i, c in enumerate(plain) if not c.filters and not c.aggs][: max(200, len(plain) // 4)]
        bare = [Case('n' + plain[i].id, plain[i].path, plain[i].docs, [], [], False, True, plain[i].mode, plain[i].meta) for i in idx]
        gb = core.run_go(bare) if bare else []
        for i, c, o in zip(idx, bare, gb):
            res.evaluations += 1
            gp = go[i]
            if {kk: v for kk, v in o.items() if kk[0] in 'PR'} != {kk: v for kk, v in gp.items() if kk[0] in 'PR'}:
                res.violation('concrete', sig_of(c, 'mode-noconfig'), 'without a Config %r behaves differently from plain mode' % (c.path,), c,
                              expected={kk: v for kk, v in gp.items() if kk[0] in 'PR'}, observed={kk: v for kk, v in o.items() if kk[0] in 'PR'})

    def replay(self, ctx, res, v):
        c = case_from_desc(v['case'])
        if c.nocfg:
            p = Case('p', c.path, c.docs, [], [], False, False, c.mode)
            go = core.run_go([c, p])
            for x in go:
                print(x)
            if {kk: v for kk, v in go[0].items() if kk[0] in 'PR'} != {kk: v for kk, v in go[1].items() if kk[0] in 'PR'}:
                res.violation('concrete', 'replay', 'no Config differs from plain mode', c)
            return
        c.acc = False
        a = Case('a', c.path, c.docs, c.filters, c.aggs, True, c.nocfg, c.mode)
        go, mo = both_sides([c, a])
        for x in go + mo:
            print(x)
        for kk in rkeys(go[0], 'R'):
            if go[0][kk] != unwrap_acc(go[1].get(kk, '')) or go[0].get('C' + kk[1:]) != go[1].get('C' + kk[1:]):
                res.violation('concrete', 'replay', 'modes differ', c)
        if {k: x for k, x in go[1].items() if k[0] in 'RC'} != {k: x for k, x in mo[1].items() if k[0] in 'RC'}:
            res.violation('concrete', 'replay', 'accessor mode differs from the model', c)


# =======================================================================================
def pairwise_distinct_leaves(g, d, counter):
    t = d[0]
    if t == 'a':
        return ('a', [pairwise_distinct_leaves(g, x, counter) for x in d[1]])
    if t == 'o':
        return ('o', [(k, pairwise_distinct_leaves(g, v, counter)) for k, v in d[1]])
    counter[0] += 1
    return ('n', float(1000 + counter[0])) if counter[0] % 2 else ('s', b'leaf%d' % counter[0])


def has_func(path):
    return b'()' in path


@register
class C13(Prop):
    id = 'C13'
    rule = ('accessor mode, documents with pairwise distinct leaves: for every accessor index i a unique sentinel is Set '
            'on a fresh copy of the document, the document is searched for it (exactly one location, everything else '
            'unchanged, Get returns it afterwards) and the location is compared with the one the model predicts; Set must be '
            'nil exactly for the root (also for the bare path `$`) and for function outputs; Set stores the very object given (identity: a later change of it '
            'shows through Get, an object stored before is left alone, read-modify-write and wrapping the current value keep it; an Accessor given to Set is stored as it is). '
            'Non-trivial: >= 2 accessors on a document of depth >= 2')
    trusted = TRUSTED_EVAL + ['documents are trees (no sub-map or sub-slice reachable twice)',
                              'members of a function output are outside the property (DESIGN §6 C13)']

    def run(self, ctx, res, budget_scale=1, seed_offset=0):
        g = gens.G(ctx.seed * 41 + 13 + seed_offset)
        r = g.r
        n = ctx.n(6000, 30000) * budget_scale
        cases = load_corpus(self.id, ctx.root) if seed_offset == 0 else []
        for i in range(n):
            jn_ = r.random() < 0.2          # documents decoded with UseNumber: Set must store the value it is given there too
            doc = g.filter_doc(jn_, 0) if r.random() < 0.4 else g.doc(3, jn_, 0)
            if r.random() < 0.7 and not jn_:
                doc = pairwise_distinct_leaves(g, doc, [0])
            steps = g.gen_path(doc, 4, 0.15)
            f, a = gens.funcs_used(steps)
            cases.append(Case('l%d' % i, gens.render_path(steps), [doc], f, a, True, False, 'loc'))
        # the bare root: the one result is the document itself, not a location of it — Set is nil whatever the root is
        for i, rdoc in enumerate([('o', [(b'a', ('n', 1.0)), (b'b', ('o', [(b'c', ('n', 2.0))]))]), ('a', [('n', 1.0)]), ('n', 5.0), ('o', []), ('z',)]):
            for j, text in enumerate([b'$', b' $ ', b'$  ']):
                cases.append(Case('rt%d_%d' % (i, j), text, [rdoc], [], [], True, False, 'loc', meta={'family': 'bare-root'}))
        # members whose name is the empty string (a name like any other), at the top and below, next to array elements
        for i in range(max(10, n // 300)):
            inner = ('o', [(b'', ('n', 2.0)), (b'b', ('a', [('n', 3.0), ('o', [(b'', ('n', 4.0))])]))])
            doc = ('o', [(b'', ('n', 1.0)), (b'a', inner), (b'c', ('a', [('n', 5.0)]))])
            text = r.choice(["$['']", '$[""]', '$.*', "$..['']", '$[?(@==1)]', "$['','c']", "$.a['']", '$..*', "$.a.b[1]['']", '$.a[*]', "$['c','']"])
            cases.append(Case('ek%d' % i, text.encode(), [doc], [], [], True, False, 'loc', meta={'family': 'empty-name-members'}))
        # C13_accessor_from_text: the path that spells the location of a node (the driver confirms it is Coq chain_path):
        # exactly one accessor, writing exactly that location
        want_loc = {}
        for i in range(ctx.n(300, 3000) * budget_scale):
            lc = gen_loc_chain(g)
            if lc is None:
                continue
            doc, text, spec, loc, val = lc
            c = Case('lt%d' % i, text.encode('utf-8'), [doc], [], [], True, False, 'loc', meta={'family': 'coq-location-path', 'nsteps': len(spec)})
            c.keyc = spec
            want_loc[c.id] = (loc, core.doc_render(val))
            cases.append(c)
        for c in cases:
            c.acc, c.mode = True, 'loc'
        go, mo = both_sides(cases)
        for c, g_, m in zip(cases, go, mo):
            res.evaluations += 1
            hp = harness_problem(g_) or harness_problem(m)
            if hp:
                res.violation('broken-correspondence', 'harness:' + hp[:60], hp, c)
                continue
            if c.id in want_loc:
                if m.get('KP') != '1':
                    res.violation('broken-correspondence', 'harness:chain_path', 'the path sent is not Coq chain_path of its steps', c)
                    continue
                wl, wv = want_loc[c.id]
                if g_.get('L0') != wl or g_.get('R0') != 'ok:[A(1,%s)]' % wv:
                    res.violation('concrete', sig_of(c, 'location-from-text'),
                                  'the path %r spells the location %s: one settable accessor writing exactly there' % (c.path, wl), c,
                                  expected={'L0': wl, 'R0': 'ok:[A(1,%s)]' % wv}, observed={'L0': g_.get('L0'), 'R0': g_.get('R0')})
            r0 = g_.get('R0', '')
            if not r0.startswith('ok:[') or not m.get('R0', '').startswith('ok:['):
                if cls_of(r0 or g_.get('P', '')) != cls_of(m.get('R0', '') or m.get('P', '')):
                    res.violation('concrete', sig_of(c, 'loc-outcome'), 'outcome differs from the model for %r' % (c.path,), c,
                                  expected=m.get('R0') or m.get('P'), observed=r0 or g_.get('P'))
                continue
            lg, lm = g_.get('L0', '').split(','), m.get('L0', '').split(',')
            vals = values_of(r0)
            if len(lg) != len(vals):
                res.violation('concrete', sig_of(c, 'loc-count'), 'location probe failed for %r: %s' % (c.path, g_.get('L0')), c, observed=g_.get('L0'))
                continue
            fn = has_func(c.path)
            bad = None
            for i, (a, b) in enumerate(zip(lg, lm)):
                if '!' in a or a.startswith('multi:') or a == 'v':
                    bad = 'accessor %d of %r: Set/Get misbehave (%s)' % (i, c.path, a)
                elif fn and (b == '?' or a == 'detached'):
                    continue            # member of a function output: outside the property
                elif a == 'detached':
                    bad = 'accessor %d of %r: Set does not write into the document' % (i, c.path)
                elif a != b:
                    bad = 'accessor %d of %r writes %s, the model predicts %s' % (i, c.path, a, b)
                if bad:
                    break
            if bad:
                res.disagreements_checked += 1
                res.violation('concrete', sig_of(c, 'set-location'), bad, c, expected=m.get('L0'), observed=g_.get('L0'))
            if len(vals) >= 2:
                res.nontrivial.add((c.path, core.doc_render(c.docs[0])))
                if len(res.samples) < 5:
                    res.sample({'path': c.path.decode('utf-8', 'replace'), 'doc': core.doc_json_text(c.docs[0])[:300], 'locations': g_.get('L0', '')[:300]})
            res.dist['accessors-%d' % min(len(vals), 5)] += 1

    def replay(self, ctx, res, v):
        c = case_from_desc(v['case'])
        c.acc, c.mode = True, 'loc'
        go, mo = both_sides([c])
        print('implementation:', go[0])
        print('model         :', mo[0])
        lg, lm = go[0].get('L0', ''), mo[0].get('L0', '')
        if '!' in lg or 'multi' in lg or (not has_func(c.path) and lg != lm):
            res.violation('concrete', 'replay', 'locations differ / Set misbehaves', c)


# =======================================================================================
@register
class C14(Prop):
    id = 'C14'
    rule = ('paths of every step-kind sequence followed by 1..3 library functions (filter/aggregate in every order, also '
            'inside filter operands) with recording functions: the argument logs and results are compared with the model; '
            'direct oracle for `P.f()` / `P.g()`: f is called once per value P returns, in order, with that value; g '
            'exactly once with all of them (or with the elements of the single array a single-valued P selects); a '
            'FunctionFailed error names a function that failed. Non-trivial: a function received >= 2 values or >= 1 call failed')
    trusted = TRUSTED_EVAL + ['user functions are modelled as pure total functions with an error result']

    def run(self, ctx, res, budget_scale=1, seed_offset=0):
        g = gens.G(ctx.seed * 43 + 14 + seed_offset)
        r = g.r
        n = ctx.n(6000, 60000) * budget_scale
        cases = load_corpus(self.id, ctx.root) if seed_offset == 0 else []
        pre_of = {}
        pres = []
        for i in range(n):
            jn = r.random() < 0.15
            doc = g.filter_doc(jn, 0) if r.random() < 0.4 else g.doc(3, jn, 0)
            steps = g.gen_path(doc, 3, 0.0 if r.random() < 0.7 else 0.4)
            nf = r.randint(1, 3)
            fs = [(('ffun', r.choice(gens.FILTER_FUNCS)) if r.random() < 0.5 else ('agg', r.choice(gens.AGG_FUNCS))) for _ in range(nf)]
            f, a = gens.funcs_used(steps + fs)
            if f and r.random() < 0.15:
                # one name registered as both kinds (filter first): it must resolve to the filter function
                a = sorted(set(a) | {r.choice(f)})
            c = Case('f%d' % i, gens.render_path(steps + fs), [doc], f, a, r.random() < 0.15, meta={'fs': fs, 'nsteps': len(steps)})
            if r.random() < 0.4:
                c.docs = [doc, mutate_doc(r, doc, 0.5), ('a', [('n', 1.0)])]
            cases.append(c)
            if not any(s[0] in ('ffun', 'agg') for s in steps) and b'()' not in gens.render_path(steps):
                pre_of[c.id] = len(pres)
                pres.append(Case('p%d' % i, gens.render_path(steps), [doc], f, a, False))
        # two and more aggregate functions chained inside a filter operand, `$`-rooted and `@`-rooted, alone and in comparisons
        for i in range(max(40, n // 40)):
            ags = [r.choice(['amax', 'cnt', 'arr', 'first']) for _ in range(r.randint(2, 3))]
            mid = r.choice(['', '', '.wrap()', '.id()'])
            chain = ''.join('.%s()' % a_ for a_ in ags[:1]) + mid + ''.join('.%s()' % a_ for a_ in ags[1:])
            root_ = r.choice(['$.lim', '$.lim[*]', '@.v', '@.v[*]', '$.items[*].n'])
            lit = r.choice(['1', '2', '5', '9'])
            op = r.choice(['>', '>=', '<', '==', '!='])
            body = r.choice(['%s%s %s %s' % (root_, chain, op, lit), '%s %s %s%s' % (lit, op, root_, chain), '%s%s' % (root_, chain),
                             '@.n < %s%s' % (root_ if root_[0] == '$' else '$.lim', chain)])
            path = ('$.items[?(%s)]' % body) + r.choice(['', '.n'])
            doc = ('o', [(b'lim', ('a', [('n', float(r.randint(1, 9))) for _ in range(r.randint(1, 3))])),
                         (b'items', ('a', [('o', [(b'n', ('n', float(j))), (b'v', ('a', [('n', float(r.randint(0, 9))) for _ in range(r.randint(0, 3))]))] +
                                                  ([(b'lim', ('a', [('n', 1.0), ('n', 2.0)]))] if r.random() < 0.5 else [])) for j in range(r.randint(1, 4))]))])
            fl = sorted({x for x in ('wrap', 'id') if x in path})
            cases.append(Case('ca%d' % i, path.encode(), [doc], fl, sorted(set(ags)), r.random() < 0.15, meta={'fs': [('agg', a_) for a_ in ags], 'nsteps': 2}))
        # an existence test whose operand selects several values and ends in a filter function (also negated, under && / ||): the
        # function is called for EVERY value the group selects, whatever the verdict turns out to be
        for i in range(max(40, n // 60)):
            def grp():
                return r.choice([('a', [r.choice([('n', float(r.randint(0, 9))), ('s', b'x'), ('n', 4.0)]) for _ in range(r.randint(2, 4))]),
                                 ('o', [(kk, r.choice([('n', float(r.randint(0, 9))), ('s', b'y')])) for kk in r.sample([b'p', b'q', b'a', b'z'], r.randint(2, 4))])])
            doc = ('a', [r.choice([grp(), ('o', [(b'a', grp()), (b'k', ('n', 1.0))]), ('a', [grp(), grp()])]) for _ in range(r.randint(1, 3))])
            fn = r.choice(['id', 'fstr', 'twice', 'tn', 'fstr'])
            op_ = r.choice(['@.*', '@[*]', '@..a', "@['p','q']", '@[0,1]', '@[0:]', '@.a.*', '@.a[*]', '@[*][*]', '@[?(@)]', '@..*'])
            body = r.choice(['%s.%s()', '!%s.%s()', '%s.%s() && @', '@.k || %s.%s()', '%s.%s() || @.zz'])
            path = '$[?(' + body % (op_, fn) + ')]'
            cases.append(Case('vg%d' % i, path.encode(), [doc], [fn], [], r.random() < 0.15, meta={'fs': [('ffun', fn)], 'nsteps': 2, 'family': 'value-group-existence-function'}))
        go, mo = both_sides(cases)
        go_p = core.run_go(pres) if pres else []
        for c, g_, m in zip(cases, go, mo):
            res.evaluations += 1
            hp = harness_problem(g_) or harness_problem(m)
            if hp:
                res.violation('broken-correspondence', 'harness:' + hp[:60], hp, c)
                continue
            pg = {k: v for k, v in g_.items() if k[0] in 'RC'}
            pm = {k: v for k, v in m.items() if k[0] in 'RC'}
            if pg != pm or pclass(g_.get('P', '')) != pclass(m.get('P', '')):
                res.disagreements_checked += 1
                res.violation('concrete', sig_of(c, 'calls-vs-model'), 'function calls / results of %r differ from the model' % (c.path,), c,
                              expected=pm, observed=pg)
            for k in [k for k in g_ if k.startswith('STALE')]:
                res.violation('concrete', sig_of(c, 'result-changed-later'),
                              'values returned by (or handed to a function of) an earlier call changed after a later call: %r' % (c.path,), c,
                              expected=g_.get('R' + k[5:]), observed=g_[k])
            calls = split_calls(g_.get('C0', ''))
            r0 = g_.get('R0', '')
            if cls_of(r0) == 'ff' and not any(call_fails(x) for x in calls):
                res.violation('concrete', sig_of(c, 'ff-without-failure'), 'FunctionFailed but no function failed: %r' % (c.path,), c, observed=g_)
            if cls_of(r0) == 'ff':
                name = unhx(r0.split(':')[1]).decode('utf-8', 'replace').strip('.()')
                if not any(call_fails(x) and re.match(r'[FG]\(%s,' % re.escape(name), x) for x in calls):
                    res.violation('concrete', sig_of(c, 'ff-wrong-name'), 'FunctionFailed names %s which did not fail: %r' % (name, c.path), c, observed=g_)
            # direct protocol oracle for the first function after a function-free prefix
            if c.id in pre_of and g_.get('P') == 'ok' and not c.acc and \
                    sum(1 for s_ in c.meta['fs'] if s_[1] == c.meta['fs'][0][1]) == 1:
                rp = go_p[pre_of[c.id]].get('R0', '')
                kind, name = c.meta['fs'][0]
                first = [x for x in calls if re.match(r'[FG]\(%s,' % name, x)]
                if rp.startswith('ok:['):
                    vals = values_of(rp)
                    if kind == 'ffun':
                        want = ['F(%s,%s)' % (name, v) for v in vals]
                        # later functions of the same name may add calls: compare the prefix subsequence
                        same_later = any(s == (kind, name) for s in c.meta['fs'][1:])
                        got = [x for x in calls if x.startswith('F(%s,' % name)]
                        if (got[:len(want)] != want) or (not same_later and got != want):
                            res.violation('concrete', sig_of(c, 'filter-fn-protocol'),
                                          'filter function %s must be called once per selected value, in order: %r' % (name, c.path), c,
                                          expected=want, observed=got)
                    else:
                        got = [x for x in calls if x.startswith('G(%s,' % name)]
                        w_all = 'G(%s,[%s])' % (name, ','.join(vals))
                        w_elems = 'G(%s,%s)' % (name, vals[0]) if len(vals) == 1 and vals[0].startswith('[') else None
                        same_later = any(s == (kind, name) for s in c.meta['fs'][1:])
                        if not got or got[0] not in (w_all, w_elems) or (not same_later and len(got) != 1):
                            res.violation('concrete', sig_of(c, 'aggregate-protocol'),
                                          'aggregate %s must be called exactly once with all selected values: %r' % (name, c.path), c,
                                          expected=[w_all, w_elems], observed=got)
                elif cls_of(rp) in ('mne', 'tum') and first:
                    res.violation('concrete', sig_of(c, 'fn-called-without-values'), 'function %s called although the path selects nothing: %r' % (name, c.path), c, observed=calls)
            if any(call_fails(x) for x in calls) or any(x.count(',') >= 2 for x in calls) or len(calls) >= 2:
                res.nontrivial.add((c.path, core.doc_render(c.docs[0])))
                if len(res.samples) < 5:
                    res.sample({'path': c.path.decode('utf-8', 'replace'), 'doc': core.doc_json_text(c.docs[0])[:200], 'calls': g_.get('C0', '')[:300], 'result': r0[:200]})
            res.dist[cls_of(r0 or 'P')] += 1

        self.from_text(ctx, res, g, budget_scale)

    def from_text(self, ctx, res, g, budget_scale):
        """C14_functions_from_text / C14_calls_from_text: steps written as Coq's chain_path, then registered filter functions
        (the driver confirms the text is chain_fun_path of them); the calls and the results expected come from walking the
        document in the harness: for each value the steps reach, in order, f on it, then the next function on what f
        returned, until one fails"""
        r = g.r
        def apply(name, v):
            if name == 'twice':
                return ('n', v[1] * 2) if v[0] == 'n' else None
            if name == 'wrap':
                return ('a', [v])
            if name == 'tn':
                return ('s', GO_TYPE[v[0]])
            if name == 'fstr':
                return None if v[0] == 's' else v
            if name == 'id':
                return v
            return None
        cases, want = [], {}
        for i in range(ctx.n(400, 4000) * budget_scale):
            # C14_functions_after_filters_from_text / C14_aggregate_after_filters_from_text: a quarter of the paths have filter steps
            with_filters = r.random() < 0.25
            for _try in range(5):
                doc, text, spec, cur = gen_chain(g, filters=0.35) if with_filters else gen_chain(g)
                if cur or r.random() < 0.15:
                    break
            names = [r.choice(['twice', 'wrap', 'tn', 'fstr', 'fstr', 'id', 'id', 'fail'] if r.random() < 0.3 else ['twice', 'wrap', 'fstr', 'id'])
                     for _ in range(r.randint(1, 3))]
            calls, outs = [], []
            agg = r.choice(['cnt', 'first', 'arr', 'amax', 'amax', 'afail']) if r.random() < 0.4 else None
            if agg:
                # C14_aggregate_from_text: the aggregate first, called once with everything the steps reach (or with the
                # elements of the single array a single-valued path reaches), not at all when they reach nothing
                names = names[:r.randint(0, 2)]
                vg = any(st[0] in (2, 3, 4, 5) or 7 <= st[0] <= 15 or (st[0] == 6 and (len(st[1]) > 1 or st[1][0][0] != 'i')) for st in spec)
                if cur:
                    args = list(cur) if vg or cur[0][0] != 'a' else list(cur[0][1])
                    calls.append('G(%s,[%s])' % (agg, ','.join(core.doc_render(a_) for a_ in args)))
                    nums = [a_[1] for a_ in args if a_[0] == 'n']
                    x = {'cnt': ('n', float(len(args))), 'first': args[0] if args else None, 'arr': ('a', args),
                         'amax': ('n', max(nums)) if nums else None, 'afail': None}[agg]
                    for nm in names:
                        if x is None:
                            break
                        calls.append('F(%s,%s)' % (nm, core.doc_render(x)))
                        x = apply(nm, x)
                    if x is not None:
                        outs.append(x)
            else:
                for v in cur:
                    x = v
                    for nm in names:
                        calls.append('F(%s,%s)' % (nm, core.doc_render(x)))
                        x = apply(nm, x)
                        if x is None:
                            break
                    if x is not None:
                        outs.append(x)
            text += ''.join('.%s()' % nm for nm in ([agg] if agg else []) + names)
            pad, nodollar = None, False
            k_ = r.random()
            if k_ < 0.15:
                # C18_outer_spaces_same_tree_with_functions: blanks before and after the whole path (Coq's fpadded_fun_path)
                pad = (r.randint(0, 3), r.randint(0, 3))
                text = ' ' * pad[0] + text + ' ' * pad[1]
            elif k_ < 0.3 and spec[0][0] not in (4, 7, 8, 9, 10, 11, 12, 13, 14, 15):
                # C18_dollar_optional_before_functions / _before_aggregates: the same path without its leading $ (Coq's fchain_fun_path0)
                nodollar = True
                text = text[1:]
                if text.startswith('.'):
                    text = text[1:]
            regs = sorted(set(names) | ({r.choice(gens.FILTER_FUNCS)} if r.random() < 0.3 else set()))
            aggs_ = sorted(({agg} if agg else set()) | ({r.choice(gens.AGG_FUNCS)} if r.random() < 0.2 else set()))
            c = Case('ft%d' % i, text.encode('utf-8'), [doc], regs, aggs_, r.random() < 0.15,
                     meta={'family': 'coq-chain-fun-path', 'nsteps': len(spec), 'fs': ([agg] if agg else []) + names})
            c.keyc = spec
            c.keyf = [[ord(ch) for ch in nm] for nm in ([agg] if agg else []) + names]
            c.pad = pad
            c.nodollar = nodollar
            want[c.id] = (calls, outs, bool(cur))
            cases.append(c)
        go, mo = both_sides(cases)
        for c, g_, m in zip(cases, go, mo):
            res.evaluations += 1
            hp = harness_problem(g_) or harness_problem(m)
            if hp:
                res.violation('broken-correspondence', 'harness:' + hp[:60], hp, c)
                continue
            if m.get('KP') != '1':
                res.violation('broken-correspondence', 'harness:chain_fun_path', 'the path sent is not Coq chain_fun_path of its steps and functions', c)
                continue
            pg = {k: v for k, v in g_.items() if k[0] in 'RC'}
            pm = {k: v for k, v in m.items() if k[0] in 'RC'}
            if pg != pm or pclass(g_.get('P', '')) != pclass(m.get('P', '')):
                res.disagreements_checked += 1
                res.violation('concrete', sig_of(c, 'calls-vs-model'), 'function calls / results of %r differ from the model' % (c.path,), c,
                              expected=pm, observed=pg)
            calls, outs, reached = want[c.id]
            got = split_calls(g_.get('C0', ''))
            r0 = g_.get('R0', '')
            if got != calls:
                res.violation('concrete', sig_of(c, 'calls-from-text'),
                              'the functions after %r must be called, for each value the steps reach in order, left to right until one fails' % (c.path,), c,
                              expected=calls, observed=got)
            if outs:
                vals = values_of(r0) if r0.startswith('ok:') else None
                if c.acc:
                    ok_ = r0.startswith('ok:') and len(vals) == len(outs)
                else:
                    ok_ = vals == [core.doc_render(v) for v in outs]
                if not ok_:
                    res.violation('concrete', sig_of(c, 'results-from-text'), 'the results of %r are the functions applied to each value reached' % (c.path,), c,
                                  expected=[core.doc_render(v) for v in outs], observed=r0)
            else:
                if r0.startswith('ok:') or (reached and cls_of(r0) != 'ff'):
                    res.violation('concrete', sig_of(c, 'failure-from-text'), 'every branch of %r failed in a function: FunctionFailed expected' % (c.path,), c,
                                  expected='ff' if reached else 'fail', observed=r0)
            if len(calls) >= 2:
                res.nontrivial.add((c.path, core.doc_render(c.docs[0])))
            res.dist['text:' + cls_of(r0 or 'P')] += 1

    def replay(self, ctx, res, v):
        replay_generic(self, ctx, res, v, lambda o, c: {k: x for k, x in o.items() if k[0] in 'RC'}, 'calls')


# =======================================================================================
def single_path_expectation(steps, doc):
    """for a path of name / single-index steps: the first failing step and its error, or None"""
    cur = doc
    for st in steps:
        if st[0] == 'name':
            text = gens.render_step(st, gens.Spelling())
            if cur[0] != 'o':
                return ('tum', text, 'object', cur)
            nxt = None
            for k, v in cur[1]:
                if k == st[1]:
                    nxt = v
            if nxt is None:
                return ('mne', text)
            cur = nxt
        else:
            i = st[1][0][1]
            text = gens.render_step(st, gens.Spelling())
            if cur[0] != 'a':
                return ('tum', text, 'array', cur)
            n = len(cur[1])
            if not (-n <= i < n):
                return ('mne', text)
            cur = cur[1][i]
    return None


GO_TYPE = {'z': b'null', 'b': b'bool', 'n': b'float64', 'j': b'json.Number', 's': b'string', 'a': b'[]interface {}', 'o': b'map[string]interface {}'}


@register
class C15(Prop):
    id = 'C15'
    rule = ('failing (path, document) pairs from the C01 generators: error type, path text, expected and found compared '
            'exactly with the model (which keeps the connected-text ranking); for single-valued name/index paths (texts confirmed as Coq chain_path, broken by a missing name, a name under a non-object, an index outside the array or under a non-array) the '
            'error must be the first failing step with the right kind, computed independently in the harness; a user filter function '
            'that panics around an aggregate must reach the caller as a panic, not as an error of another step; location paths followed by library functions (aggregate first or not) must fail at the first function that fails, named as written. '
            'Non-trivial: the retrieval fails on a path of >= 2 steps')
    trusted = TRUSTED_EVAL

    def run(self, ctx, res, budget_scale=1, seed_offset=0):
        g = gens.G(ctx.seed * 47 + 15 + seed_offset)
        r = g.r
        n = ctx.n(9000, 80000) * budget_scale
        cases = load_corpus(self.id, ctx.root) if seed_offset == 0 else []
        expect = {}
        cases += mk_eval_cases(g, n * 2 // 3, 'e', funcs=0.2, acc=0.1, jnum=0.15, filter_heavy=0.3, alias=0.03)
        for i in range(n // 3):
            jn = r.random() < 0.2
            doc = g.doc(4, jn, 0)
            steps, _ = g.gen_single_steps(doc, r.randint(1, 5))
            c = Case('s%d' % i, gens.render_path(steps), [doc])
            cases.append(c)
            expect[c.id] = single_path_expectation(steps, doc)
        # C15_first_failing_step_from_text: paths of name steps written as Coq's chain_path (driver-confirmed), failing at a chosen depth
        # by a missing member or by a value that is not an object; the expected error comes from walking the document
        for i in range(max(60, n // 20)):
            lc = gen_loc_chain(g)
            if lc is None:
                continue
            doc, text, spec, loc, val = lc
            # C15_first_failing_step_with_indexes_from_text: name and index steps down to a node, then a step that cannot be taken — a
            # missing name, a name under a non-object, an index outside the array (also counted from the end), an index under a
            # non-array — and now and then further steps behind it: the error names the first one
            if r.random() < 0.3:
                k = 0
                while k < len(spec) and spec[k][0] != 1:
                    k += 1
                spec = spec[:k]         # names only (C15_first_failing_step_from_text)
            if not spec:
                continue
            # re-walk to know the text of each kept step and the value reached
            cur, parts = doc, []
            t_ = text[1:]
            for st in spec:
                if st[0] == 1:
                    seg = '[' + ''.join(chr(c) for c in st[1]) + ']'
                    if not t_.startswith(seg):
                        parts = None
                        break
                    parts.append(seg)
                    t_ = t_[len(seg):]
                    cur = cur[1][int(seg[1:-1])]
                    continue
                key = ''.join(chr(c) for c in st[1]).encode('utf-8')
                if st[0] == 0:
                    seg = '.' + gens.esc_dot(key).decode('utf-8')
                else:
                    q_ = chr(st[0])
                    seg = '[' + q_ + ''.join('\\' + ch if ch in (q_, '\\') else ('\\u%04x' % ord(ch) if ord(ch) < 0x20 else ch) for ch in key.decode('utf-8')) + q_ + ']'
                if not t_.startswith(seg):
                    parts = None
                    break
                parts.append(seg)
                t_ = t_[len(seg):]
                cur = [x for kk, x in cur[1] if kk == key][-1]
            if parts is None:
                continue
            if r.random() < (0.5 if cur[0] == 'a' else 0.25):
                # an index step that cannot be taken
                if cur[0] == 'a':
                    n_ = r.choice([len(cur[1]), len(cur[1]) + r.randint(1, 3), -(len(cur[1]) + 1), -(len(cur[1]) + r.randint(2, 4))])
                else:
                    n_ = r.choice([0, 1, -1])
                digits = ('-' if n_ < 0 else '') + ('0' if r.random() < 0.2 else '') + str(abs(n_))
                seg = '[' + digits + ']'
                spec2 = spec + [(1, [ord(ch) for ch in digits])]
                exp_ = ('mne', seg.encode('utf-8')) if cur[0] == 'a' else ('tum', seg.encode('utf-8'), 'array', cur)
            else:
                # the failing step's own name may need escapes in dot notation (a dot, a blank, brackets): the error names the step AS WRITTEN
                extra_key = r.choice([b'zz9', b'nope', b'a', b'a.b', b'k 1', b'a[0]', b'$x', b'q.'])
                style = r.choice("'\".")
                seg = ('.' + gens.esc_dot(extra_key).decode('utf-8')) if style == '.' else '[%s%s%s]' % (style, extra_key.decode(), style)
                if cur[0] == 'o' and any(kk == extra_key for kk, _ in cur[1]):
                    continue
                spec2 = spec + [(0 if style == '.' else ord(style), [ord(ch) for ch in extra_key.decode()])]
                exp_ = ('mne', seg.encode('utf-8')) if cur[0] == 'o' else ('tum', seg.encode('utf-8'), 'object', cur)
            behind = ''
            for _ in range(r.choice([0, 0, 1, 2])):
                if r.random() < 0.5:
                    behind += '.zz'
                    spec2 = spec2 + [(0, [122, 122])]
                else:
                    behind += '[0]'
                    spec2 = spec2 + [(1, [48])]
            c = Case('nm%d' % i, ('$' + ''.join(parts) + seg + behind).encode('utf-8'), [doc], meta={'family': 'coq-name-path-error', 'nsteps': len(spec2)})
            if not any(st[0] == 1 and st[1][0] == 45 for st in spec2):
                c.keyc = spec2       # an index written with a sign is a one-entry union for the grammar: outside the premises (step_ok) of the theorem; sent as an oracle case only
            cases.append(c)
            expect[c.id] = exp_
            keyc_cases = True
        # C15_failing_function_from_text: name and index steps down to a node, then 1..3 filter functions: the call fails at the FIRST
        # function that fails on what the functions before it returned, naming it as written (expectation from applying the
        # harness's own definitions of the library functions); the text is Coq's chain_fun_path (driver-confirmed)
        def lib_apply(name, v):
            if name == 'twice':
                return ('n', v[1] * 2) if v[0] == 'n' else None
            if name == 'wrap':
                return ('a', [v])
            if name == 'tn':
                return ('s', GO_TYPE[v[0]])
            if name == 'fstr':
                return None if v[0] == 's' else v
            if name == 'id':
                return v
            return None
        for i in range(max(60, n // 20)):
            lc = gen_loc_chain(g)
            if lc is None:
                continue
            doc, text, spec, loc, val = lc
            names = [r.choice(['twice', 'fstr', 'id', 'wrap', 'tn', 'fail', 'twice', 'fstr']) for _ in range(r.randint(1, 3))]
            x, exp_, agg = val, None, None
            if r.random() < 0.35:
                # C15_failing_aggregate_from_text: an aggregate first — it receives the elements of the array reached, or the single value
                agg = r.choice(['amax', 'first', 'cnt', 'afail', 'arr'])
                names = names[:r.randint(0, 2)]
                args = list(x[1]) if x[0] == 'a' else [x]
                nums = [a_[1] for a_ in args if a_[0] == 'n']
                x = {'cnt': ('n', float(len(args))), 'first': args[0] if args else None, 'arr': ('a', args),
                     'amax': ('n', max(nums)) if nums else None, 'afail': None}[agg]
                if x is None:
                    exp_ = ('ff', ('.%s()' % agg).encode())
            if exp_ is None:
                for nm in names:
                    x = lib_apply(nm, x)
                    if x is None:
                        exp_ = ('ff', ('.%s()' % nm).encode())
                        break
            names = ([agg] if agg else []) + names
            c = Case('fe%d' % i, (text + ''.join('.%s()' % nm for nm in names)).encode('utf-8'), [doc], sorted(set(names) - {agg}), [agg] if agg else [],
                     meta={'family': 'coq-fun-path-error', 'nsteps': len(spec) + len(names)})
            c.keyc = spec
            c.keyf = [[ord(ch) for ch in nm] for nm in names]
            cases.append(c)
            expect[c.id] = exp_
        # several branches failing in DIFFERENT functions of a chain: the error names the function furthest along the path,
        # whatever the order of the branches
        for i in range(max(30, n // 40)):
            vals = [r.choice([('s', b'x'), ('b', True), ('n', 2.0), ('z',), ('a', []), ('o', [])]) for _ in range(r.randint(2, 5))]
            names = [r.choice(['fstr', 'twice', 'fstr', 'twice', 'id', 'wrap', 'tn', 'fail']) for _ in range(r.randint(2, 3))]
            holder = ('a', vals) if r.random() < 0.5 else ('o', [(b'k%d' % j, v) for j, v in enumerate(vals)])
            pre = r.choice([b'$[*]', b'$.*', b'$..*', b'$[0:]' if holder[0] == 'a' else b'$[*]', b'$[?(@ || 1 == 1)]'])
            path = pre + b''.join(b'.%s()' % nm.encode() for nm in names)
            cases.append(Case('fc%d' % i, path, [holder, ('a', list(reversed(vals)))], sorted(set(names)), [], meta={'family': 'function-chain-errors', 'nsteps': 1 + len(names)}))
        # a user FILTER function that panics inside the parameter of an aggregate, or after one: the library reports no error of its
        # own there — least of all one naming the aggregate, where nothing failed — the panic reaches the caller as it is
        for i in range(max(16, n // 200)):
            vals = [r.choice([('n', 2.0), ('b', True), ('z',), ('n', 7.0)]) for _ in range(r.randint(1, 4))]
            vals.insert(r.randint(0, len(vals)), ('s', r.choice([b'x', b'abc'])))
            holder = ('a', vals) if r.random() < 0.5 else ('o', [(b'k%d' % j, v) for j, v in enumerate(vals)])
            ag = r.choice(['amax', 'cnt', 'arr'])
            if i % 3 == 2:
                path, holder = b'$.*.first().pstr()', (holder[0], [('s', b'x')] + vals if holder[0] == 'a' else [(b'a0', ('s', b'x'))] + holder[1])
                aggs = ['first']
            else:
                path = r.choice([b'$.*.pstr().%s()', b'$[*].pstr().%s()', b'$..*.pstr().%s()', b'$[*].id().pstr().%s().id()']) % ag.encode()
                aggs = [ag]
            cases.append(Case('pf%d' % i, path, [holder], ['id', 'pstr'], aggs, meta={'family': 'panicking-filter-function-around-aggregate', 'nsteps': 3}))
        go, mo = both_sides(cases)
        for c, g_, m in zip(cases, go, mo):
            res.evaluations += 1
            hp = harness_problem(g_) or harness_problem(m)
            if hp:
                res.violation('broken-correspondence', 'harness:' + hp[:60], hp, c)
                continue
            a = g_.get('R0', 'P:' + g_.get('P', ''))
            if c.meta.get('family') == 'panicking-filter-function-around-aggregate':
                # outside the model (its functions return a value or fail): the only acceptable outcome is the user's own panic
                want = 'panic:' + hx(b'user filter function panicked on a string')
                if a != want:
                    res.violation('concrete', sig_of(c, 'panic-reported-as-step-error'),
                                  'a panic of a user filter function must reach the caller, not become an error of another step: %r' % (c.path,), c, expected=want, observed=a)
                else:
                    res.nontrivial.add((c.path, core.doc_render(c.docs[0])))
                res.dist['panic'] += 1
                continue
            b = m.get('R0', 'P:' + m.get('P', ''))
            fa = a if not a.startswith('ok:') else 'ok'
            fb = b if not b.startswith('ok:') else 'ok'
            if fa != fb:
                res.disagreements_checked += 1
                res.violation('concrete', sig_of(c, 'error-vs-model'), 'error reported for %r differs from the model' % (c.path,), c, expected=b, observed=a)
            if '!badtext' in a:
                res.violation('concrete', sig_of(c, 'error-text'), 'Error() text does not match the error fields: %r' % (c.path,), c, observed=a)
            if c.keyc and m.get('P') == 'ok' and m.get('KP') != '1':
                res.violation('broken-correspondence', 'harness:chain_path', 'the path sent is not Coq chain_path of its steps', c)
            if c.id in expect:
                e = expect[c.id]
                if e is None:
                    want = 'ok'
                elif e[0] == 'mne':
                    want = 'mne:' + hx(e[1])
                elif e[0] == 'ff':
                    want = 'ff:' + hx(e[1])
                else:
                    want = 'tum:%s:%s:%s' % (hx(e[1]), e[2], hx(GO_TYPE[e[3][0]]))
                if fa != want:
                    res.violation('concrete', sig_of(c, 'first-failing-step'),
                                  'single-valued path %r must report its first failing step' % (c.path,), c, expected=want, observed=a)
            if fa != 'ok' and g_.get('P') == 'ok' and (c.meta.get('nsteps', 0) >= 2 or c.id in expect):
                res.nontrivial.add((c.path, core.doc_render(c.docs[0])))
                if len(res.samples) < 5:
                    res.sample({'path': c.path.decode('utf-8', 'replace'), 'doc': core.doc_json_text(c.docs[0])[:200], 'error': a})
            res.dist[cls_of(a)] += 1

    def replay(self, ctx, res, v):
        c = case_from_desc(v['case'])
        if (c.meta or {}).get('family') == 'panicking-filter-function-around-aggregate':
            g_ = core.run_go([c])[0]
            print('implementation: %s' % {k: x for k, x in g_.items() if k != 'id'})
            if g_.get('R0') != 'panic:' + hx(b'user filter function panicked on a string'):
                res.violation('concrete', 'replay', 'a panic of a user filter function must reach the caller: %r' % (c.path,), c, observed=g_.get('R0'))
            return
        replay_generic(self, ctx, res, v, lambda o, c: {k: (x if not x.startswith('ok:') else 'ok') for k, x in o.items() if k[0] == 'R'}, 'error')


# =======================================================================================
KEY_ALPHABET = [0x3000, 0xa0, 0x2003, 0x20, 0x21, 0x22, 0x23, 0x24, 0x27, 0x28, 0x29, 0x2a, 0x2c, 0x2d, 0x2e, 0x2f, 0x3a, 0x3f, 0x40, 0x5b, 0x5c,
                0x5d, 0x5f, 0x60, 0x7b, 0x7e, 0x7f, 0x00, 0x01, 0x08, 0x09, 0x0a, 0x0d, 0x1f, 0x30, 0x41, 0x61, 0x62, 0x6e,
                0x74, 0x75, 0x78, 0xe9, 0x3042, 0xfffd, 0xffff, 0xd7ff, 0xe000, 0x10000, 0x1f600, 0x10ffff, 0x80, 0x7ff, 0x800]


def gen_key(r):
    k = r.random()
    if k < 0.08:
        return ''
    if k < 0.2:
        return r.choice(['\\n', '\\u0041', 'a\\', '\\\\', "\\'", '\\"', '\\ud83d', '\\ud83d\\ude00', 'a.b', "it's", 'say "x"',
                         '\\/', '\\b', '$', '@', '*', '..', '()', 'a()', '[0]', "']", '\\x', '\\u12', 'a b', ' ', 'true', '1', '-1'])
    body = ''.join(chr(r.choice(KEY_ALPHABET)) for _ in range(r.randint(1, 12 if r.random() < 0.3 else 4)))
    if r.random() < 0.06:
        # a name that begins with something a text reader might strip: a byte order mark, a zero-width space, a word joiner
        body = r.choice(['\ufeff', '\u200b', '\u2060', '\ufffe']) + r.choice([body, 'id', 'a'])
    return body


def near_misses(r, key):
    out = set()
    if len(key) > 1:
        out.add(key[1:])
    if '\\' in key:
        out.add(key.replace('\\', ''))
        out.add(key.replace('\\', '\\\\'))
    else:
        out.add('\\' + key)
    out.add(key + 'x')
    if key:
        out.add(key[:-1])
        out.add(key.swapcase())
    out.discard(key)
    return sorted(out)[:r.randint(0, 3)]


@register
class C16(Prop):
    id = 'C16'
    rule = ('keys from all Unicode planes, ASCII symbols, controls and escape-like sequences, length 0..12, alone and '
            "among near-miss sibling keys: the spellings ['k'], [\"k\"] (JSON-style escaping) and, for non-empty control-free "
            'keys, .k with every symbol backslash-escaped must return exactly that member, in five positions (root, after a '
            'name, after .., inside a filter operand, inside a multi-name selector); expected value by direct map lookup in '
            'the harness, and compared with the model; multi-name selectors of 65..128 names; existence tests over one name (texts confirmed as Coq fchain_path) selecting exactly the members that hold it. Non-trivial: the key needs escaping in some spelling')
    trusted = TRUSTED_PARSE + ['encoding/json string unquoting is modelled concretely in coq/Text.v']

    def run(self, ctx, res, budget_scale=1, seed_offset=0):
        r = random.Random(ctx.seed * 53 + 16 + seed_offset)
        n = ctx.n(4000, 120000) * budget_scale
        cases = load_corpus(self.id, ctx.root) if seed_offset == 0 else []
        want = {}
        for i in range(n):
            key = gen_key(r)
            kb = key.encode('utf-8')
            sibs = [s for s in near_misses(r, key)]
            pos = r.randint(0, 6)
            # the member's value: usually 1, sometimes null / false / "" / an empty container (a member holding null is still a
            # member); the filter position compares with == 1 and keeps the number
            tv = ('n', 1.0) if (pos == 3 or r.random() < 0.6) else r.choice([('z',), ('b', False), ('s', b''), ('a', []), ('o', []), ('z',)])
            tvr = core.doc_render(tv)
            members = [(kb, tv)] + [(s.encode('utf-8'), ('n', float(j + 2))) for j, s in enumerate(sibs)]
            r.shuffle(members)
            obj = ('o', members)
            spell = [b"['" + gens.esc_json(kb, "'") + b"']", b'["' + gens.esc_json(kb, '"') + b'"]']
            dot = gens.esc_dot(kb)
            if dot is not None and not any(ord(ch) < 0x20 or ch == '\x7f' for ch in key):
                spell.append(b'.' + dot)
            for j, sp in enumerate(spell):
                cid = 'k%d_%d' % (i, j)
                if pos == 0:
                    c = Case(cid, b'$' + sp, [obj])
                    w = 'ok:[%s]' % tvr
                elif pos == 1:
                    c = Case(cid, b'$.w' + sp, [('o', [(b'w', obj)])])
                    w = 'ok:[%s]' % tvr
                elif pos == 2:
                    dotless = sp[1:] if sp.startswith(b'.') else sp
                    shape = i % 4
                    holder = [('a', [obj]), ('a', [('a', [obj])]), ('o', [(b'rows', ('a', [('a', [obj]), ('a', [('s', b'x')])]))]),
                              ('a', [('a', [('a', [obj])])])][shape]
                    if tv[0] in 'ao' and tv[0] == 'o':
                        pass
                    c = Case(cid, b'$..' + dotless, [holder])
                    w = 'ok:[%s]' % tvr
                elif pos == 3:
                    c = Case(cid, b'$[?(@' + sp + b' == 1)]', [('a', [obj, ('o', [(b'zz', ('n', 1.0))])])])
                    w = 'ok:[%s]' % core.doc_render(obj)
                elif pos == 6:
                    # the operand of an existence filter, plain and negated: the captured operand text contains the key as written
                    other = ('o', [(b'zz', ('n', 1.0))]) if kb != b'zz' else ('o', [(b'yy', ('n', 1.0))])
                    if j % 2 == 0:
                        c = Case(cid, b'$[?(@' + sp + b')]', [('a', [obj, other])])
                        w = 'ok:[%s]' % core.doc_render(obj)
                    else:
                        c = Case(cid, b'$[?(!@' + sp + b')]', [('a', [obj, other])])
                        w = 'ok:[%s]' % core.doc_render(other)
                elif pos == 5:
                    # first step of a path written without its leading $, followed by another step
                    first = sp[1:] if sp.startswith(b'.') else sp
                    holder = ('o', [(mk, ('o', [(b'w', mv)])) for mk, mv in members] + ([] if kb == b'w' else [(b'w', ('n', 77.0))]))
                    c = Case(cid, first + r.choice([b'.w', b"['w']"]), [holder])
                    w = 'ok:[%s]' % tvr
                else:
                    if sp.startswith(b'.'):
                        c = Case(cid, b'$' + sp, [obj])
                        w = 'ok:[%s]' % tvr
                    else:
                        c = Case(cid, b"$['zz'," + sp[1:-1] + b']', [('o', members + [(b'zz', ('n', 99.0))])]) if b'zz' != kb else Case(cid, b'$' + sp, [obj])
                        w = ('ok:[n(99,0),%s]' % tvr) if b'zz' != kb else 'ok:[%s]' % tvr
                # an earlier Parse whose filter literal has the same raw text (a shared unescape cache would confuse them)
                raw = sp[1:-1] if not sp.startswith(b'.') else None
                if raw is not None and raw[:1] in (b"'", b'"') and len(raw) >= 2:
                    c.pre = b'$[?(@.x == ' + raw + b')]'
                c.meta = {'key': key, 'pos': pos, 'escaped': any(ch in "'\"\\" or ord(ch) < 0x20 for ch in key) or (dot is not None and dot != kb)}
                want[cid] = w
                cases.append(c)
        # bracket lists of 65..90 quoted names (every entry selects its member, however many entries there are), in both quote styles
        for i in range(3 if ctx.quick else 8):
            cnt = r.choice([65, 70, 90, 66, 128])
            names_ = ['k%02d' % j for j in range(cnt)]
            present = [nm for nm in names_ if r.random() < 0.8 or nm == names_[-1]]
            obj = ('o', [(nm.encode(), ('n', float(j))) for j, nm in enumerate(present)])
            lst = ','.join((("'%s'" if (j + i) % 2 else '"%s"') % nm) for j, nm in enumerate(names_))
            for j, (pre_, holder) in enumerate([(b'$', obj), (b'$.w', ('o', [(b'w', obj)])), (b'$..', ('a', [obj]))]):
                cid = 'ml%d_%d' % (i, j)
                c = Case(cid, pre_ + b'[' + lst.encode() + b']', [holder])
                c.meta = {'key': 'k..', 'pos': 7, 'escaped': False, 'family': 'long-name-lists'}
                want[cid] = 'ok:[%s]' % ','.join(core.doc_render(('n', float(present.index(nm)))) for nm in names_ if nm in present)
                cases.append(c)
        # keys written with \\uXXXX escapes, surrogate pairs and UNPAIRED surrogates (which decode to U+FFFD one by one)
        for i in range(n // 8):
            units = []
            for _ in range(r.randint(1, 5)):
                k = r.random()
                if k < 0.3:
                    ch = r.choice('abAZ09 _-') ; units.append((ch, ch))
                elif k < 0.5:
                    cp = r.choice([0x41, 0xe9, 0x3b1, 0x65e5, 0xfffd, 0x20ac, 0x7f, 0x1f, 0x2028])
                    units.append(('\\u%04x' % cp, chr(cp)))
                elif k < 0.65:
                    cp = r.choice([0x1f600, 0x10000, 0x10ffff, 0x1d11e]) - 0x10000
                    units.append(('\\u%04x\\u%04x' % (0xd800 + (cp >> 10), 0xdc00 + (cp & 0x3ff)), chr(cp + 0x10000)))
                elif k < 0.85:
                    # an unpaired high surrogate, then something that is not a low surrogate
                    nxt = r.choice([('\\u0041', 'A'), ('x', 'x'), ('\\u00e9', '\u00e9')])
                    units.append(('\\u%04x' % r.choice([0xd800, 0xd834, 0xdbff]) + nxt[0], '\ufffd' + nxt[1]))
                else:
                    units.append(('\\u%04x' % r.choice([0xdc00, 0xdfff]), '\ufffd'))
            body, key = ''.join(u[0] for u in units), ''.join(u[1] for u in units)
            kb = key.encode('utf-8')
            sibs = {s for s in ['\ufffd', 'A', key[:-1], key + 'A', key.replace('\ufffd', '', 1)] if s != key}
            members = [(kb, ('n', 1.0))] + [(sx.encode('utf-8'), ('n', float(j + 2))) for j, sx in enumerate(sorted(sibs))]
            r.shuffle(members)
            for j, q in enumerate("'\""):
                cid = 'u%d_%d' % (i, j)
                c = Case(cid, ('$[' + q + body + q + ']').encode('utf-8'), [('o', members)])
                c.meta = {'key': key, 'pos': 'uescape', 'escaped': True}
                want[cid] = 'ok:[n(1,0)]'
                cases.append(c)
        # a quote character written as \\u0027 / \\u0022 inside either quote style: it is that character, and the key with the OTHER quote
        # character in its place is a different key
        for i in range(max(12, n // 200)):
            pre, post = r.choice(['', 'a', 'it', 'x y']), r.choice(['', 'b', 's', '!'])
            for j, (esc, ch, other) in enumerate([('\\u0027', "'", '"'), ('\\u0022', '"', "'")]):
                key, twin = pre + ch + post, pre + other + post
                members = [(key.encode(), ('n', 1.0)), (twin.encode(), ('n', 2.0)), ((pre + post + 'z').encode(), ('n', 3.0))]
                r.shuffle(members)
                for k2, q in enumerate("'\""):
                    cid = 'uq%d_%d_%d' % (i, j, k2)
                    tmpl = r.choice(['$[%s%s%s]', '$..[%s%s%s]', '$.w[%s%s%s]'])
                    holder = ('o', members) if not tmpl.startswith('$.w') else ('o', [(b'w', ('o', members))])
                    c = Case(cid, (tmpl % (q, pre + esc + post, q)).encode(), [holder])
                    c.meta = {'key': key, 'pos': 'uescape-quote', 'escaped': True}
                    want[cid] = 'ok:[n(1,0)]'
                    cases.append(c)
        # the spelling the theorems C16_bracket_spelling_parses / C16_member_addressable speak about: Coq's key_path
        # (every control character as \\u00XX); the driver confirms that the path sent is exactly key_path q key
        for i in range(n // 4):
            key = gen_key(r)
            if r.random() < 0.3:
                key += ''.join(chr(r.choice([0, 1, 7, 8, 9, 10, 11, 12, 13, 27, 31, 34, 39, 92])) for _ in range(r.randint(1, 4)))
            kb = key.encode('utf-8')
            sibs = [sx for sx in near_misses(r, key)]
            members = [(kb, ('n', 1.0))] + [(sx.encode('utf-8'), ('n', float(j + 2))) for j, sx in enumerate(sibs)]
            r.shuffle(members)
            present = r.random() < 0.85
            obj = ('o', members if present else [m for m in members if m[0] != kb] + [(b'zz9', ('n', 5.0))])
            for j, q in enumerate("'\""):
                body = ''.join('\\' + ch if ch in (q, '\\') else ('\\u%04x' % ord(ch) if ord(ch) < 0x20 else ch) for ch in key)
                cid = 'q%d_%d' % (i, j)
                c = Case(cid, ('$[' + q + body + q + ']').encode('utf-8'), [obj])
                c.keyq = (ord(q), [ord(ch) for ch in key])
                c.meta = {'key': key, 'pos': 'coq-key-path', 'escaped': body != key, 'keyq': True}
                want[cid] = 'ok:[n(1,0)]' if present else 'mne:' + hx(('[' + q + body + q + ']').encode('utf-8'))
                cases.append(c)
            dot = gens.esc_dot(kb)
            if dot is not None:
                cid = 'q%d_2' % i
                c = Case(cid, b'$.' + dot, [obj])
                c.keyq = (0, [ord(ch) for ch in key])
                c.meta = {'key': key, 'pos': 'coq-dot-path', 'escaped': dot != kb, 'keyq': True}
                want[cid] = 'ok:[n(1,0)]' if present else 'mne:' + hx(b'.' + dot)
                cases.append(c)
        # chains of name steps in mixed spellings through nested objects (C16_member_addressable_at_depth): the text
        # sent is Coq's chain_path (confirmed by the driver), the expected value comes from following the keys
        for i in range(n // 6):
            depth = r.randint(2, 4)
            # a step is a key (object level) or an index (array level)
            keys = [(gen_key(r) if r.random() < 0.7 else r.randint(0, 11)) for _ in range(depth)]
            present = r.random() < 0.8
            miss_at = r.randrange(depth)
            inner = ('n', 1.0)
            for lvl in range(depth - 1, -1, -1):
                k = keys[lvl]
                hit = present or lvl != miss_at
                if isinstance(k, int):
                    ln = k + 1 + r.randint(0, 2) if hit else r.randint(0, k)
                    inner = ('a', [inner if j == k else ('n', float(j + 2)) for j in range(ln)])
                else:
                    sibs = [(sx.encode('utf-8'), ('n', float(j + 2))) for j, sx in enumerate(near_misses(r, k))]
                    members = sibs + ([(k.encode('utf-8'), inner)] if hit else [(b'zz9', inner)])
                    r.shuffle(members)
                    inner = ('o', members)
            text, spec = '$', []
            for k in keys:
                if isinstance(k, int):
                    digits = ('0' * r.choice([0, 0, 0, 1, 2])) + str(k)
                    text += '[' + digits + ']'
                    spec.append((1, [ord(ch) for ch in digits]))
                    continue
                kb = k.encode('utf-8')
                dot = gens.esc_dot(kb)
                style = r.choice("'\"." if dot is not None else "'\"")
                if style == '.':
                    text += '.' + dot.decode('utf-8')
                    spec.append((0, [ord(ch) for ch in k]))
                else:
                    body = ''.join('\\' + ch if ch in (style, '\\') else ('\\u%04x' % ord(ch) if ord(ch) < 0x20 else ch) for ch in k)
                    text += '[' + style + body + style + ']'
                    spec.append((ord(style), [ord(ch) for ch in k]))
            cid = 'c%d' % i
            c = Case(cid, text.encode('utf-8'), [inner])
            c.keyc = spec
            c.meta = {'key': [str(k) for k in keys], 'pos': 'coq-chain-path', 'escaped': True, 'keyq': True}
            want[cid] = 'ok:[n(1,0)]' if present else '*err'
            cases.append(c)
        # C16_member_test_in_filter_operand: the existence test (plain and negated) over ONE name in any spelling, as Coq's fchain_path writes
        # it (driver-confirmed): exactly the members that are objects holding that name, in member order — elements in index order,
        # member values in ascending key order — or the others
        for i in range(n // 10):
            key = gen_key(r)
            kb = key.encode('utf-8')
            dot = gens.esc_dot(kb)
            style = r.choice("'\"." if dot is not None else "'\"")
            if style == '.':
                seg, stp = '.' + dot.decode('utf-8'), (0, [ord(ch) for ch in key])
            else:
                body = ''.join('\\' + ch if ch in (style, '\\') else ('\\u%04x' % ord(ch) if ord(ch) < 0x20 else ch) for ch in key)
                seg, stp = '[' + style + body + style + ']', (ord(style), [ord(ch) for ch in key])
            neg = r.random() < 0.4
            sibs = [(sx.encode('utf-8'), ('n', float(j + 2))) for j, sx in enumerate(near_misses(r, key))]
            pool = [('o', [(kb, r.choice([('n', 1.0), ('z',), ('b', False), ('a', []), ('o', [])]))] + sibs[:1]), ('o', sibs + [(b'zz9', ('n', 5.0))] if kb != b'zz9' else sibs),
                    ('o', [(kb, ('s', b'x'))]), ('n', 3.0), ('a', [('o', [(kb, ('n', 1.0))])]), ('s', kb), ('o', [])]
            mem = [r.choice(pool) for _ in range(r.randint(2, 5))]
            if r.random() < 0.5:
                doc, ordered = ('a', mem), mem
            else:
                names_ = r.sample([b'p', b'q', b'A', b'b1', b'\xc3\xa9', b'z'], len(mem))
                doc, ordered = ('o', list(zip(names_, mem))), [v for _, v in sorted(zip(names_, mem))]
            sel = [v for v in ordered if (v[0] == 'o' and any(kk == kb for kk, _ in v[1])) != neg]
            cid = 'fo%d' % i
            c = Case(cid, ('$[?(' + ('!' if neg else '') + '@' + seg + ')]').encode('utf-8'), [doc])
            c.keyc = [(9 if neg else 7, [stp])]
            c.meta = {'key': key, 'pos': 'coq-filter-operand', 'escaped': seg[1:] != key, 'keyq': True}
            want[cid] = ('ok:[%s]' % ','.join(core.doc_render(v) for v in sel)) if sel else '*err'
            cases.append(c)
        # two members addressed from the root on both sides of a comparison: distinct keys must stay distinct
        for i in range(n // 8):
            key = gen_key(r)
            sibs = near_misses(r, key)
            other = r.choice(sibs) if sibs and r.random() < 0.8 else key
            if 'list' in (key, other):
                continue
            v1, v2 = ('n', 1.0), (('n', 2.0) if other != key else ('n', 1.0))
            members = [(key.encode('utf-8'), v1)] + ([(other.encode('utf-8'), v2)] if other != key else []) + [(b'list', ('a', [('n', 7.0)]))]
            r.shuffle(members)
            q1, q2 = r.choice("'\""), r.choice("'\"")
            sp1 = b'[' + q1.encode() + gens.esc_json(key.encode('utf-8'), q1) + q1.encode() + b']'
            sp2 = b'[' + q2.encode() + gens.esc_json(other.encode('utf-8'), q2) + q2.encode() + b']'
            op = r.choice([b'==', b'!='])
            cid = 'b%d' % i
            c = Case(cid, b'$.list[?($' + sp1 + b' ' + op + b' $' + sp2 + b')]', [('o', members)])
            c.meta = {'key': key, 'pos': 'both-root', 'escaped': True}
            holds = (other == key) == (op == b'==')
            want[cid] = 'ok:[n(7,0)]' if holds else None
            cases.append(c)
        go, mo = both_sides(cases)
        for c, g_, m in zip(cases, go, mo):
            res.evaluations += 1
            hp = harness_problem(g_) or harness_problem(m)
            if hp:
                res.violation('broken-correspondence', 'harness:' + hp[:60], hp, c)
                continue
            a = g_.get('R0', 'P:' + g_.get('P', ''))
            b = m.get('R0', 'P:' + m.get('P', ''))
            if c.meta.get('keyq') and m.get('KP') != '1':
                res.violation('broken-correspondence', 'harness:key_path', 'the path sent for key %r is not Coq key_path of it' % (c.meta.get('key'),), c)
                continue
            if a != b:
                res.disagreements_checked += 1
                res.violation('concrete', sig_of(c, 'key-vs-model'), '%r differs from the model' % (c.path,), c, expected=b, observed=a)
            if c.id in want and want[c.id] is None:
                if a.startswith('ok:'):
                    res.violation('concrete', sig_of(c, 'keys-confused'), 'the comparison %r holds although the two members differ' % (c.path,), c,
                                  expected='no match', observed=a)
            elif c.id in want and want[c.id] == '*err':
                if a.startswith('ok:'):
                    res.violation('concrete', sig_of(c, 'key-not-addressed'), 'the chain %r selects something although a name is missing on the way' % (c.path,), c, expected='an error', observed=a)
            elif c.id in want and a != want[c.id]:
                res.violation('concrete', sig_of(c, 'key-not-addressed'),
                              'the selector %r does not return exactly the member named %r' % (c.path, c.meta.get('key')), c,
                              expected=want[c.id], observed=a)
            if c.meta.get('escaped'):
                res.nontrivial.add(c.path)
                if len(res.samples) < 6:
                    res.sample({'key': c.meta.get('key'), 'path': c.path.decode('utf-8', 'replace'), 'observed': a})
            res.dist['pos-%s' % c.meta.get('pos')] += 1

    def replay(self, ctx, res, v):
        replay_generic(self, ctx, res, v, lambda o, c: {k: x for k, x in o.items() if k[0] in 'PR'}, 'key')
        c = case_from_desc(v['case'])
        if 'expected' in v and isinstance(v['expected'], str) and v['expected'].startswith('ok:'):
            g_ = core.run_go([c])[0]
            if g_.get('R0') != v['expected']:
                res.violation('concrete', 'replay', 'member not addressed: %s' % g_.get('R0'), c)


# =======================================================================================
@register
class C18(Prop):
    id = 'C18'
    rule = ('each generated path AST rendered in 2..6 random spellings (optional spaces at every point the grammar allows, '
            'quote style, +sign / leading zeros, .* vs [*], .name vs [\'name\'], leading $ omitted) over generated documents: all '
            'spellings must return the same values, or errors of the same type; each spelling also compared with the model; '
            'wildcard-then-names paths in pure dot notation and six other spellings on members failing at different depths; '
            'spellings of very different lengths (300..1100 blanks at allowed places, 120..150 names in dot and bracket form). '
            'Non-trivial: >= 2 distinct spellings and the path selects something or has >= 2 steps')
    trusted = TRUSTED_PARSE + TRUSTED_EVAL

    def run(self, ctx, res, budget_scale=1, seed_offset=0):
        g = gens.G(ctx.seed * 59 + 18 + seed_offset)
        r = g.r
        n = ctx.n(2000, 40000) * budget_scale
        groups = []
        cases = load_corpus(self.id, ctx.root) if seed_offset == 0 else []
        for c in cases:
            groups.append([c])
        for i in range(n):
            jn = r.random() < 0.15
            doc = g.filter_doc(jn, 0) if r.random() < 0.5 else g.doc(3, jn, 0)
            steps = g.gen_path(doc, 4, 0.2)
            f, a = gens.funcs_used(steps)
            texts = [gens.render_path(steps)]
            for _ in range(r.randint(1, 5)):
                texts.append(gens.render_path(steps, gens.Spelling(r, r.choice([0.2, 0.5, 0.9])), dollar=r.random() < 0.7))
            grp = []
            for j, t in enumerate(dict.fromkeys(texts)):
                c = Case('g%d_%d' % (i, j), t, [doc], f, a, meta={'nsteps': len(steps)})
                grp.append(c)
                cases.append(c)
            groups.append(grp)
        # an aggregate after a value-group step, spelled with and without the leading `$`
        for i in range(n // 8):
            inner = ('a', [('a', [('n', float(k)) for k in range(r.randint(1, 4))]) for _ in range(r.randint(1, 3))])
            doc = ('o', [(b'a', inner), (b'b', ('n', 1.0))])
            tail = r.choice([b'[*]', b'.*', b'[0:]', b'[0,1]', b'[?(@)]'])
            fn = r.choice(gens.AGG_FUNCS)
            grp = [Case('v%d_a' % i, b'$.a' + tail + b'.' + fn.encode() + b'()', [doc], [], [fn], meta={'nsteps': 3}),
                   Case('v%d_b' % i, b'a' + tail + b'.' + fn.encode() + b'()', [doc], [], [fn], meta={'nsteps': 3}),
                   Case('v%d_c' % i, b"['a']" + tail + b'.' + fn.encode() + b'()', [doc], [], [fn], meta={'nsteps': 3})]
            cases += grp
            groups.append(grp)
        # raw bracket-name bodies in both quote styles (control characters, escapes, blanks, non-ASCII)
        atoms = [b'a', b'b', b'\t', b'\x01', b'\x1f', b'\\n', b'\\t', b'\\u0041', b'\\\\', b'\\/', b'\xc3\xa9', b' ', b'.', b'*',
                 b'\\b', b'\x7f', b'\\x', b'\\u12', b'\\ud83d\\ude00', b'$', b'@']
        for i in range(n // 4):
            body = b''.join(r.choice(atoms) for _ in range(r.randint(1, 4)))
            doc = ('o', [(b'a', ('n', 1.0)), (b'a\tb', ('n', 2.0)), (b'A', ('n', 3.0)), (b'\n', ('n', 4.0)), (b'a b', ('n', 5.0)),
                         (b'\xc3\xa9', ('n', 6.0)), (b'\\', ('n', 7.0)), (b'/', ('n', 8.0)), (b'\t', ('n', 9.0)), (b'\x01', ('n', 10.0))])
            grp = [Case('q%d_s' % i, b"$['" + body + b"']", [doc], meta={'nsteps': 2}),
                   Case('q%d_d' % i, b'$["' + body + b'"]', [doc], meta={'nsteps': 2})]
            cases += grp
            groups.append(grp)
        # a wildcard followed by names, written purely in dot notation and in the other spellings, on members that fail at different
        # depths in different orders: the error reported is the deepest one whatever the spelling
        for i in range(max(24, n // 30)):
            names = [r.choice(['a', 'b', 'c']) for _ in range(r.randint(2, 3))]

            def failing(d, kind):
                v = ('n', 1.0) if kind == 't' else ('o', [(b'zz', ('n', 1.0))])
                for nm in reversed(names[:d]):
                    v = ('o', [(nm.encode(), v)])
                return v
            elems = [failing(r.randint(0, len(names) - 1), r.choice('tm')) for _ in range(r.randint(2, 4))]
            doc = ('a', elems) if r.random() < 0.6 else ('o', [(('k%d' % j).encode(), e) for j, e in enumerate(elems)])
            dot = '.'.join(names)
            br = ''.join("['%s']" % nm for nm in names)
            texts = ['$.*.' + dot, '*.' + dot, '$[*].' + dot, '$[*]' + br, ' $.*.' + dot, '[*].' + dot, '$.*' + br, '$.*.' + dot + ' ']
            grp = [Case('de%d_%d' % (i, j), t.encode(), [doc], meta={'nsteps': 1 + len(names), 'family': 'deepest-error-spellings'}) for j, t in enumerate(texts)]
            cases += grp
            groups.append(grp)
        # spellings of very different lengths (beyond a thousand characters): blanks wherever the grammar allows them, bracket names
        # against dot names on a long chain
        pad = lambda: ' ' * r.choice([300, 600, 1100])
        ldoc = ('o', [(b'a', ('a', [('n', 10.0), ('n', 20.0), ('n', 30.0)])), (b'b', ('n', 1.0))])
        for i, (short, mk) in enumerate([("$['a'][0,2]", lambda: "$[" + pad() + "'a'" + pad() + "][0" + pad() + "," + pad() + "2]"),
                                         ('$.a[0:2]', lambda: '$.a[0' + pad() + ':' + pad() + '2]'),
                                         ('$.a[?(@>10)]', lambda: '$.a[?(' + pad() + '@' + pad() + '>' + pad() + '10' + pad() + ')]'),
                                         ('$.a[1]', lambda: pad() + '$.a[1]' + pad()),
                                         ("$['a','b']", lambda: "$['a'" + pad() + ',' + pad() + "'b']"),
                                         ('$.a[?(@==10||@==30)]', lambda: '$.a[?(@==10' + pad() + '||' + pad() + '@==30)]')]):
            grp = [Case('ln%d_0' % i, short.encode(), [ldoc], meta={'nsteps': 2, 'family': 'long-spellings'}),
                   Case('ln%d_1' % i, mk().encode(), [ldoc], meta={'nsteps': 2, 'family': 'long-spellings'})]
            cases += grp
            groups.append(grp)
        for i, depth in enumerate([120, 150]):
            v = ('n', 7.0)
            for _ in range(depth):
                v = ('o', [(b'k0123', v)])
            grp = [Case('lc%d_0' % i, ('$' + '.k0123' * depth).encode(), [v], meta={'nsteps': depth, 'family': 'long-spellings'}),
                   Case('lc%d_1' % i, ('$' + "['k0123']" * depth).encode(), [v], meta={'nsteps': depth, 'family': 'long-spellings'}),
                   Case('lc%d_2' % i, ('$' + '["k0123"]' * depth).encode(), [v], meta={'nsteps': depth, 'family': 'long-spellings'})]
            cases += grp
            groups.append(grp)
        go, mo = both_sides(cases)
        by_id = {c.id: (g_, m) for c, g_, m in zip(cases, go, mo)}
        for grp in groups:
            outs = []
            for c in grp:
                res.evaluations += 1
                g_, m = by_id[c.id]
                hp = harness_problem(g_) or harness_problem(m)
                if hp:
                    res.violation('broken-correspondence', 'harness:' + hp[:60], hp, c)
                    continue
                a = g_.get('R0', 'P:' + g_.get('P', ''))
                b = m.get('R0', 'P:' + m.get('P', ''))
                if a != b:
                    res.disagreements_checked += 1
                    res.violation('concrete', sig_of(c, 'spelling-vs-model'), '%r differs from the model' % (c.path,), c, expected=b, observed=a)
                outs.append((c, a if a.startswith('ok:') else cls_of(a)))
            if len({o for _, o in outs}) > 1:
                c0 = outs[0][0]
                other = [c for c, o in outs if o != outs[0][1]][0]
                res.violation('concrete', sig_of(other, 'spelling-changes-behaviour'),
                              'equivalent spellings behave differently: %r vs %r' % (c0.path, other.path), other,
                              expected=outs[0][1], observed=[o for _, o in outs], extra={'canonical': c0.describe()})
            if len(outs) >= 2 and (outs[0][1].startswith('ok:') or outs[0][0].meta.get('nsteps', 0) >= 2):
                res.nontrivial.add(outs[0][0].path)
                if len(res.samples) < 5:
                    res.sample({'spellings': [c.path.decode('utf-8', 'replace') for c, _ in outs], 'outcome': outs[0][1][:200]})
            res.dist['spellings-%d' % len(outs)] += 1

    def replay(self, ctx, res, v):
        c = case_from_desc(v['case'])
        cs = [c]
        if 'canonical' in v:
            cs.append(case_from_desc(v['canonical'], 'canon'))
        go, mo = both_sides(cs)
        for x in go + mo:
            print(x)
        if go[0].get('R0') != mo[0].get('R0') or go[0].get('P') != mo[0].get('P'):
            res.violation('concrete', 'replay', 'differs from the model', c)
        if len(cs) == 2:
            a, b = go[0].get('R0', go[0].get('P')), go[1].get('R0', go[1].get('P'))
            if (a if a.startswith('ok:') else cls_of(a)) != (b if b.startswith('ok:') else cls_of(b)):
                res.violation('concrete', 'replay', 'spellings behave differently', c)


# =======================================================================================
FAILING_PATHS = [b'$[99999999999999999999]', b'$.a.nofn()', b'$[(1+1)]', b'$[?(@.* == 1)]', b'$[?(@.a == @.b)]', b'$.a]', b'$[?(@.a =~ /[/)]',
                 b'$[?(@.a == 1e)]', b"$['\\x']", b'$[?(@.a == 1 && @.b.nofn())]', b'$[?(@.a == 1 && @.b[99999999999999999999])]',
                 b'$[?(@.a > 1 || @.c == @.d)]', b'$..[?(@.a == $..b)]', b'$[?((@.a == 1) && (@.b =~ /(/))]', b'', b'$$', b'@',
                 b'$[?(@.a.twice() == 2 && @.b.cnt())]', b'$.a.cnt(', b'$[?(@.a', b'$[0:1:99999999999999999999]']
LEAK_PROBES = [(b'$.a.twice()', True), (b'$.*.cnt()', True), (b'[?(@.a)]', False), (b'$.a', False), (b"['a','b']", False),
               (b'$[?(@.a.twice() == 2)]', True), (b'a.b', False), (b'$..a', False), (b'[0]', False), (b'$[?(@.a == 1)]', False)]


@register
class C19(Prop):
    id = 'C19'
    rule = ('histories of <= 10 Parse/Retrieve calls in one process mixing valid paths, paths failing at every kind of '
            'action (bad number, unknown function, script, value-group comparison, two current nodes, bad regex, bad escape, '
            'trailing garbage — also while a filter operand is half built), configs with different function sets / accessor '
            'mode / no config, configs modified after Parse, and copies of a Config that get a function of the other kind; the same quoted text met twice (a single-quoted name the decoder '
            'rejects; one backslash-letter text as a filter literal and as a double-quoted name); every outcome is compared with the same call made alone '
            'in a fresh history and with the model (a pure function of path and config); the parser action state is read '
            'after every call through the verif hook. Non-trivial: a failing Parse is followed by a Parse with another or no config')
    trusted = TRUSTED_PARSE + ['value capture of Go closures (functions kept after the Config is modified) is observed dynamically only']

    def run(self, ctx, res, budget_scale=1, seed_offset=0):
        import json
        init_globals()
        g = gens.G(ctx.seed * 61 + 19 + seed_offset)
        r = g.r
        n = ctx.n(1200, 10000) * budget_scale
        doc = ('o', [(b'a', ('n', 1.0)), (b'b', ('a', [('n', 1.0), ('n', 2.0)])), (b'c', ('o', [(b'a', ('n', 3.0))]))])
        doc2 = ('a', [('o', [(b'a', ('n', 1.0)), (b'b', ('n', 5.0))]), ('o', [(b'a', ('n', 2.0))])])
        hists = []
        singles = {}
        for i in range(n):
            ops = []
            interesting = False
            failed_before = False
            for k in range(r.randint(2, 10)):
                x = r.random()
                if x < 0.3:
                    path = r.choice(FAILING_PATHS)
                    needs = False
                elif x < 0.4:
                    path = strgen.mutate(r, r.choice(FAILING_PATHS + [p for p, _ in LEAK_PROBES]))
                    needs = False
                elif x < 0.75:
                    path, needs = r.choice(LEAK_PROBES)
                else:
                    path = strgen.grammar_path(g, funcs=0.4)[0][:200]
                    needs = False
                cfgk = r.random()
                if cfgk < 0.35:
                    cfg = {'filters': [], 'aggs': [], 'acc': False, 'nocfg': True}
                elif cfgk < 0.55:
                    cfg = {'filters': [], 'aggs': [], 'acc': r.random() < 0.5, 'nocfg': False}
                elif cfgk < 0.7:
                    cfg = {'filters': r.sample(gens.FILTER_FUNCS, 2), 'aggs': r.sample(gens.AGG_FUNCS, 2), 'acc': r.random() < 0.3, 'nocfg': False}
                else:
                    cfg = {'filters': gens.FILTER_FUNCS, 'aggs': gens.AGG_FUNCS, 'acc': r.random() < 0.3, 'nocfg': False}
                d = doc if r.random() < 0.6 else doc2
                op = dict(op='retrieve', path_hex=hx(path), doc=core.doc_go(d), mutate=r.random() < 0.2, **cfg)
                ops.append((op, d))
                if failed_before and (cfg['nocfg'] or not cfg['filters']):
                    interesting = True
                if path in FAILING_PATHS:
                    failed_before = True
            hists.append((ops, interesting))
        # type mismatches on values of different Go types that share a reflect kind (json.Number / string; the found type must be
        # the value's own, whatever was reported earlier in the process)
        jdoc = ('o', [(b'a', ('j', '12.5')), (b'b', ('a', [('j', '1'), ('j', '2')])), (b'c', ('o', [(b'a', ('j', '3'))]))])
        sdoc = ('o', [(b'a', ('s', b'text')), (b'b', ('a', [('s', b'1'), ('s', b'2')])), (b'c', ('o', [(b'a', ('s', b'x'))]))])
        for i in range(max(30, n // 20)):
            ops = []
            for k in range(r.randint(2, 5)):
                path = r.choice([b'$.a.x', b'$.a[0]', b'$.a.*', b'$.c.a.y', b'$.b[0].z', b'$.b[*].z', b'$.a..x', b'$.a[?(@.x)]', b'$.b[1][0]'])
                d = r.choice([jdoc, sdoc, doc])
                cfg = {'filters': [], 'aggs': [], 'acc': False, 'nocfg': True}
                ops.append((dict(op='retrieve', path_hex=hx(path), doc=core.doc_go(d), mutate=False, **cfg), d))
            hists.append((ops, True))
        # the same quoted text met again later in the process: a single-quoted name the decoder rejects (a raw control character)
        # parsed twice, in one path or another; the same backslash-letter text once as a string literal of a filter (the
        # backslash is dropped) and once as a double-quoted member name (a JSON escape), in either order
        edoc = ('o', [(b'', ('n', 1.0)), (b'x', ('o', [(b'', ('n', 2.0)), (b'k\tey', ('n', 3.0))])), (b'k\tey', ('n', 4.0)),
                      (b'anb', ('o', [(b's', ('s', b'anb'))])), (b'a\nb', ('o', [(b's', ('s', b'a\nb'))])),
                      (b'xty', ('o', [(b's', ('s', b'xty'))])), (b'x\ty', ('o', [(b's', ('s', b'x\ty'))]))])
        for i in range(max(24, n // 40)):
            ops = []
            nocfg = {'filters': [], 'aggs': [], 'acc': False, 'nocfg': True}
            if r.random() < 0.5:
                raw = r.choice([b'k\tey', b'\n', b'a\x01', b'k\tey'])
                paths = [b"$['" + raw + b"']", b"$.x['" + raw + b"']", b"$..['" + raw + b"']", b"$['" + raw + b"','x']", b"$['" + raw + b"']"]
                seq = [r.choice(paths) for _ in range(r.randint(2, 4))]
            else:
                raw = r.choice([b'a\\nb', b'x\\ty', b'a\\nb', b'\\u0041', b'q\\rb', b'\\f'])
                q = r.choice([b"'", b'"'])
                lit = [b'$[?(@.s==' + q + raw + q + b')]', b'$.*[?(@==' + q + raw + q + b')]', b'$[?(@.s!=' + q + raw + q + b')].s']
                nam = [b'$["' + raw + b'"]', b'$..["' + raw + b'"]', b'$["' + raw + b'"].s']
                seq = [r.choice(lit), r.choice(nam)]
                if r.random() < 0.5:
                    seq.reverse()
                seq.append(r.choice(lit + nam))
            for path in seq:
                cfg = nocfg if r.random() < 0.6 else {'filters': gens.FILTER_FUNCS, 'aggs': gens.AGG_FUNCS, 'acc': r.random() < 0.3, 'nocfg': False}
                ops.append((dict(op='retrieve', path_hex=hx(path), doc=core.doc_go(edoc), mutate=False, **cfg), edoc))
            hists.append((ops, True))
        # something very large just before: a path of thousands of steps, a retrieval returning more than a thousand values
        # (oversized parser tables and pooled buffers are what a library may decide to rebuild or trim), then ordinary calls
        # with and without a Config
        bigdoc = ('a', [('n', float(k)) for k in range(1500)])
        for i in range(max(14, n // 80)):
            ops = []
            if r.random() < 0.7:
                long_path = b'$' + r.choice([b'.a', b'[0]', b'.*']) * r.choice([1000, 1400])
                ops.append((dict(op='retrieve', path_hex=hx(long_path), doc=core.doc_go(doc), mutate=False, filters=[], aggs=[], acc=False, nocfg=True), doc))
            else:
                ops.append((dict(op='retrieve', path_hex=hx(r.choice([b'$[*]', b'$..*', b'$[0:]', b'$[?(@ >= 0)]'])), doc=core.doc_go(bigdoc), mutate=False,
                                 filters=[], aggs=[], acc=False, nocfg=True), bigdoc))
            for _ in range(r.randint(1, 3)):
                path, needs = r.choice(LEAK_PROBES)
                cfg = r.choice([{'filters': gens.FILTER_FUNCS, 'aggs': gens.AGG_FUNCS, 'acc': r.random() < 0.5, 'nocfg': False},
                                {'filters': [], 'aggs': [], 'acc': True, 'nocfg': False}, {'filters': [], 'aggs': [], 'acc': False, 'nocfg': True}])
                d = r.choice([doc, doc2])
                ops.append((dict(op='retrieve', path_hex=hx(path), doc=core.doc_go(d), mutate=False, **cfg), d))
            hists.append((ops, True))
        # a user function that PANICS in the middle of a retrieval (the caller recovers, as the runner does): whatever the library
        # had borrowed at that moment, later calls — among them retrievals that keep several of its buffers in use at once
        # (a filter inside a filter operand beside a comparison) — behave as in a fresh history
        doc3 = ('a', [('o', [(b'a', ('n', 2.0)), (b'b', ('a', [('o', [(b'c', ('n', 4.0))])]))]), ('o', [(b'a', ('n', 5.0)), (b'b', ('a', [('o', [(b'c', ('n', 9.0))])]))]),
                      ('o', [(b'a', ('n', 7.0)), (b'b', ('a', [('o', [(b'c', ('n', 5.0))]), ('o', [(b'c', ('n', 1.0))])]))]), ('o', [(b'a', ('n', 0.0)), (b'b', ('a', []))])])
        nest_probes = [b'$[*][?(@.c > 3)]', b'$[?(@.a > 1 && @.b[?(@.c > 3)])].a', b'$[?(@.b[?(@.c > 3)] && @.a > 1)].a', b'$[?(@.b[?(@.c > 3 && @.c < 9)])].a',
                       b'$[?(@.b[?(@.c == $[0].a.twice())])].a', b'$..[?(@.c)].c', b'$[?(@.b.cnt() > 0 && @.b[?(@.c > 4)])].a', b'$[*].b[?(@.c > $[0].a)].c', b'$[*].b.cnt()']
        for i in range(max(24, n // 40)):
            ops = []
            pcfg = {'filters': ['id', 'twice'], 'aggs': ['apanic', 'cnt'], 'acc': r.random() < 0.3, 'nocfg': False}
            for _ in range(r.randint(1, 3)):
                ppath = r.choice([b'$.b.apanic()', b'$.*.apanic()', b'$[?(@.b.apanic() > 1)]', b'$.b[*].apanic().id()', b'$.c.apanic()', b'$..a.apanic()'])
                ops.append((dict(op='retrieve', path_hex=hx(ppath), doc=core.doc_go(doc), mutate=False, **pcfg), doc))
                if r.random() < 0.3:
                    ops.append((dict(op='retrieve', path_hex=hx(r.choice(LEAK_PROBES)[0]), doc=core.doc_go(doc), mutate=False, filters=[], aggs=[], acc=False, nocfg=True), doc))
            for _ in range(r.randint(2, 4)):
                cfg = r.choice([{'filters': ['id', 'twice'], 'aggs': ['cnt', 'first'], 'acc': False, 'nocfg': False}, {'filters': ['twice'], 'aggs': ['cnt'], 'acc': r.random() < 0.3, 'nocfg': False}])
                ops.append((dict(op='retrieve', path_hex=hx(r.choice(nest_probes)), doc=core.doc_go(doc3), mutate=False, **cfg), doc3))
            hists.append((ops, True))
        # several Configs handed to one call (only the first is documented to count), then the FIRST Config object used again
        # alone: functions of the later Configs must not have leaked into it, whether the first call succeeded or failed
        for i in range(max(30, n // 15)):
            fa = r.sample(gens.FILTER_FUNCS, r.randint(1, 3))
            fb = [f for f in gens.FILTER_FUNCS if f not in fa][:r.randint(1, 3)]
            aa = r.sample(gens.AGG_FUNCS, r.randint(0, 2))
            ab = [a for a in gens.AGG_FUNCS if a not in aa][:r.randint(1, 2)]
            cfga = {'filters': fa, 'aggs': aa, 'acc': False, 'nocfg': False}
            p0 = r.choice([b'$.a.' + fa[0].encode() + b'()', b'$.a.' + fa[0].encode() + b'().unknown()', b'$.a.' + fb[0].encode() + b'()',
                           b'$.b.' + ab[0].encode() + b'()', b'$.a', r.choice(FAILING_PATHS)])
            ops = [(dict(op='retrieve', path_hex=hx(p0), doc=core.doc_go(doc), mutate=False, filters2=fb, aggs2=ab, **cfga), doc)]
            for _ in range(r.randint(0, 2)):
                ops.append((dict(op='retrieve', path_hex=hx(r.choice(LEAK_PROBES)[0]), doc=core.doc_go(doc), mutate=False,
                                 filters=[], aggs=[], acc=False, nocfg=True), doc))
            for _ in range(r.randint(1, 3)):
                probe = r.choice([b'$.a.' + r.choice(fb).encode() + b'()', b'$.b.' + r.choice(ab).encode() + b'()',
                                  b'$.a.' + fa[0].encode() + b'()', b'$.b[?(@.' + r.choice(fb).encode() + b'() > 0)]'])
                ops.append((dict(op='retrieve', path_hex=hx(probe), doc=core.doc_go(doc), mutate=False, cfg_ref=1, **cfga), doc))
            hists.append((ops, True))
        # a Config whose functions are REPLACED under their names after a Parse, then used again: the new Parse binds the
        # functions the Config holds now (all of them failing), the function parsed earlier keeps the ones it was parsed with
        for i in range(max(30, n // 30)):
            fa = r.sample(['twice', 'id', 'wrap', 'tn'], r.randint(1, 3))
            aa = r.sample(['cnt', 'first', 'arr', 'amax'], r.randint(1, 2))
            cfga = {'filters': fa, 'aggs': aa, 'acc': r.random() < 0.2, 'nocfg': False}
            p_f = [b'$.a.' + fa[0].encode() + b'()', b'$.b[*].' + fa[0].encode() + b'()', b'$.b.' + aa[0].encode() + b'()', b'$.b[?(@.' + fa[0].encode() + b'() > 0)]',
                   b'$.c.a.' + fa[-1].encode() + b'().' + fa[0].encode() + b'()', b'$.b.' + aa[-1].encode() + b'().' + fa[0].encode() + b'()']
            ops = [(dict(op='retrieve', path_hex=hx(r.choice(p_f)), doc=core.doc_go(doc), mutate=True, **cfga), doc)]
            for _ in range(r.randint(0, 1)):
                ops.append((dict(op='retrieve', path_hex=hx(r.choice(LEAK_PROBES)[0]), doc=core.doc_go(doc), mutate=False, filters=[], aggs=[], acc=False, nocfg=True), doc))
            for _ in range(r.randint(1, 3)):
                ops.append((dict(op='retrieve', path_hex=hx(r.choice(p_f)), doc=core.doc_go(doc), mutate=False, cfg_ref=1, allfail=True, **cfga), doc))
            hists.append((ops, True))
        # Configs are VALUES: a copy taken when only one kind of function had been registered, then the first function of the other
        # kind registered on the copy — the original must not know it (and the other way round)
        for i in range(max(12, n // 100)):
            ff, ag = r.choice(['twice', 'id', 'wrap']), r.choice(['amax', 'cnt', 'first'])
            p_f, p_a = b'$.a.' + ff.encode() + b'()', b'$.b.' + ag.encode() + b'()'
            if i % 2 == 0:
                base = {'filters': [ff], 'aggs': [], 'acc': False, 'nocfg': False}
                derived = dict(base, aggs=[ag], copy_of=1, add_filters=[], add_aggs=[ag])
                first, probe = p_f, p_a
            else:
                base = {'filters': [], 'aggs': [ag], 'acc': False, 'nocfg': False}
                derived = dict(base, filters=[ff], copy_of=1, add_filters=[ff], add_aggs=[])
                first, probe = p_a, p_f
            ops = [(dict(op='retrieve', path_hex=hx(first), doc=core.doc_go(doc), mutate=False, **base), doc),
                   (dict(op='retrieve', path_hex=hx(probe), doc=core.doc_go(doc), mutate=False, **derived), doc),
                   (dict(op='retrieve', path_hex=hx(probe), doc=core.doc_go(doc), mutate=False, cfg_ref=1, **base), doc),
                   (dict(op='retrieve', path_hex=hx(first), doc=core.doc_go(doc), mutate=False, cfg_ref=1, **base), doc)]
            hists.append((ops, True))
        # tens of thousands of unrelated Parse calls between two long paths that share a prefix (whatever the parser keeps across
        # calls and tells apart by a counter must survive the counter's wrap-around: 2^16 calls, give or take the harness's own)
        wdoc = ('o', [(b'aaaaaaaaaaaaaaaaaaaa', ('o', [(b'bcd', ('a', [('n', 10.0), ('n', 20.0), ('n', 30.0)])), (b'b', ('o', [(b'c', ('n', 1.0))])), (b'bbb', ('n', 2.0))]))])
        nocfg_ = {'filters': [], 'aggs': [], 'acc': False, 'nocfg': True}
        for burn in ([65535, 65534, 65536, 65533] if ctx.quick else [65535, 65534, 65536, 65533, 65532, 65537, 131071, 131070]):
            p1, p2 = r.choice([(b'$.aaaaaaaaaaaaaaaaaaaa.bcd[0:2]', b'$.aaaaaaaaaaaaaaaaaaaa.bcd[0,2]'), (b'$.aaaaaaaaaaaaaaaaaaaa.b.c', b'$.aaaaaaaaaaaaaaaaaaaa.bbb'),
                               (b'$.aaaaaaaaaaaaaaaaaaaa.bcd[0:2]', b'$.aaaaaaaaaaaaaaaaaaaa.bcd[0,2]')])
            ops = [(dict(op='retrieve', path_hex=hx(p1), doc=core.doc_go(wdoc), mutate=False, **nocfg_), wdoc),
                   (dict(op='retrieve', path_hex=hx(p2), doc=core.doc_go(wdoc), mutate=False, burn=burn, **nocfg_), wdoc),
                   (dict(op='retrieve', path_hex=hx(p1), doc=core.doc_go(wdoc), mutate=False, **nocfg_), wdoc)]
            hists.append((ops, True))
        # a parsed function HELD while a thousand and more unrelated filters with fresh literals are parsed, then called: whatever its tree
        # refers to (literal operands, compiled expressions, names) is its own
        hdoc = ('a', [('o', [(b'a', ('s', b'held')), (b'n', ('n', 1.0))]), ('o', [(b'a', ('n', 5.0)), (b'n', ('n', 2.0))]), ('o', [(b'a', ('s', b'h7')), (b'n', ('n', 3.0))])])
        for i, hp_ in enumerate([b"$[?(@.a == 'held')].n", b'$[?(@.a == 5)].n', b'$[?(@.a =~ /^h7$/)].n', b"$[?(@.a != 'held' && @.a != 5)].n", b"$[?('held' == @.a || 5 == @.a)].n"]):
            for bh in ([1100, 2100] if ctx.quick else [1023, 1024, 1025, 2100, 4200]):
                ops = [(dict(op='retrieve', path_hex=hx(hp_), doc=core.doc_go(hdoc), mutate=False, burn_held=bh, **nocfg_), hdoc),
                       (dict(op='retrieve', path_hex=hx(hp_), doc=core.doc_go(hdoc), mutate=False, **nocfg_), hdoc)]
                hists.append((ops, True))
        # cold starts: the history runs in a brand-new process, so its first call is the first the library ever sees
        # (lazily initialised package state, the generated parser's own buffers): the empty path, paths that begin
        # with an escape, a bare name, ... then ordinary calls
        ncold = len(hists)
        for i in range(max(40, n // 12)):
            first = r.choice([b'', b'', b'\\$ref.id', b'\\@x', b'$', b'a', b'[0]', b'$.a\\.b', b"$['\\u0061']", b'$..*', b' ', b'$[?(@.a)]'])
            ops = []
            for k in range(r.randint(1, 4)):
                path = first if k == 0 else (r.choice(LEAK_PROBES)[0] if r.random() < 0.6 else r.choice(FAILING_PATHS))
                cfg = {'filters': [], 'aggs': [], 'acc': False, 'nocfg': True} if r.random() < 0.6 else \
                      {'filters': gens.FILTER_FUNCS, 'aggs': gens.AGG_FUNCS, 'acc': r.random() < 0.3, 'nocfg': False}
                d = r.choice([doc, doc2, ('o', [(b'$ref', ('o', [(b'id', ('n', 1.0))])), (b'@x', ('n', 2.0)), (b'a.b', ('n', 3.0)), (b'a', ('n', 4.0))])])
                ops.append((dict(op='retrieve', path_hex=hx(path), doc=core.doc_go(d), mutate=False, **cfg), d))
            hists.append((ops, True))
        raws = []
        for i, (ops, _) in enumerate(hists):
            if i >= ncold:
                raws.append(RawCase('h%d' % i, json.dumps({'id': 'h%d' % i, 'mode': 'coldhist', 'ops': [o for o, _ in ops]})))
            else:
                raws.append(RawCase('h%d' % i, hist_json('h%d' % i, [o for o, _ in ops])))
        # the same calls alone (first call of a fresh history) and in the model
        uniq = {}
        for ops, _ in hists:
            for op, d in ops:
                key = json.dumps([op['path_hex'], op['filters'], op['aggs'], op['acc'], op['nocfg'], core.doc_render(d), bool(op.get('allfail'))])
                if key not in uniq:
                    cid = 'u%d' % len(uniq)
                    op1 = dict(op, mutate=False, cfg_ref=0, burn=0, copy_of=0, burn_held=0)
                    uniq[key] = (RawCase(cid, hist_json(cid, [op1])),
                                 Case(cid, unhx(op['path_hex']), [d], op['filters'], op['aggs'], op['acc'], op['nocfg']))
        gos = core.run_go(raws)
        ukeys = list(uniq)
        go_u = core.run_go([uniq[k][0] for k in ukeys], jobs=16)
        mcases = [uniq[k][1] for k in ukeys]
        core.fill_tables(mcases)
        mo_u = core.run_model(mcases)
        alone = {}
        for k, gu, mu, mc in zip(ukeys, go_u, mo_u, mcases):
            res.evaluations += 1
            hp = harness_problem(gu) or harness_problem(mu)
            if hp:
                res.violation('broken-correspondence', 'harness:' + hp[:60], hp, mc)
                continue
            o = gu.get('O0', gu.get('P', ''))
            alone[k] = o
            if json.loads(k)[6]:
                continue        # every function replaced by a failing one under its name: not a library of the model; compared with the call alone only
            if b'apanic' in mc.path:
                continue        # a panicking user function is outside the model (its functions return a value or fail); compared with the call alone only
            if mu.get('P') == 'ok':
                want = '%s|%s' % (mu.get('R0', ''), mu.get('C0', ''))
            else:
                want = mu.get('P', '')
            if o != want and not (pclass(o) == pclass(want) and pclass(o) in ('arg', 'syn', 'fnf', 'nsp') and o.split('!')[0] == want):
                res.disagreements_checked += 1
                res.violation('concrete', sig_of(mc, 'parse-alone-vs-model'), 'Parse+call of %r alone differs from the model' % (mc.path,), mc,
                              expected=want, observed=o)
        for (ops, interesting), raw, g_ in zip(hists, raws, gos):
            res.evaluations += 1
            bad = None
            for k, (op, d) in enumerate(ops):
                key = json.dumps([op['path_hex'], op['filters'], op['aggs'], op['acc'], op['nocfg'], core.doc_render(d), bool(op.get('allfail'))])
                o = g_.get('O%d' % k, g_.get('P', ''))
                if key in alone and o != alone[key]:
                    bad = (k, o, alone[key])
                    break
            if bad or g_.get('G', '') != GLOBALS_INIT or 'STALE' in g_:
                k, o, want = bad or (-1, g_.get('G'), GLOBALS_INIT)
                desc = {'history': [dict(path=unhx(op['path_hex']).decode('utf-8', 'replace'), **{x: op[x] for x in ('filters', 'aggs', 'acc', 'nocfg', 'mutate')}) for op, _ in ops],
                        'ops': [op for op, _ in ops], 'failing_call': k}
                res.violation('concrete', 'history|' + '|'.join(h['path'] for h in desc['history'][:k + 1]),
                              'call %d of the history behaves differently from the same call made alone' % k, desc, expected=want, observed=o)
            if interesting:
                res.nontrivial.add(raw.id)
                if len(res.samples) < 4:
                    res.sample({'history': [unhx(op['path_hex']).decode('utf-8', 'replace') + (' (no config)' if op['nocfg'] else ' (%d functions%s)' % (len(op['filters']) + len(op['aggs']), ', accessor' if op['acc'] else ''))
                                            for op, _ in ops], 'outcomes': [g_.get('O%d' % k, '')[:80] for k in range(len(ops))]})
            res.dist['history-len-%d' % len(ops)] += 1

    def replay(self, ctx, res, v):
        ops = v['case']['ops']
        g_ = core.run_go([RawCase('r', hist_json('r', ops))])[0]
        print('history :', g_)
        for k, op in enumerate(ops):
            a = core.run_go([RawCase('a', hist_json('a', [dict(op, mutate=False, cfg_ref=0, burn=0, copy_of=0, burn_held=0)]))])[0]
            if a.get('O0') != g_.get('O%d' % k):
                print('call %d alone: %s' % (k, a.get('O0')))
                res.violation('concrete', 'replay', 'call %d differs from the same call alone' % k, v['case'])
                return


# =======================================================================================
@register
class C20(EvalProp):
    id = 'C20'
    what = 'behaviour on non-JSON Go values'
    rule = ('generator documents with a random subset of leaves replaced by values of some forty-five non-JSON Go types and values (ints, structs, '
            'struct{}, typed maps/slices, pointers, typed nils, funcs, channels, arrays, NaN, time.Time, error, Accessor), all '
            'parsable generated paths incl. existence tests, literal/ordering/regex/deep-equal comparisons and functions; '
            'results, errors (found type) and call logs compared with the model; any panic / undocumented error is a '
            'violation; location paths (texts confirmed as Coq chain_path) into a planted foreign value, then one more step: type unmatched naming that step with the Go type found. Non-trivial: the document contains a foreign value and the path parses')

    def quick_n(self):
        return 4000

    def thorough_n(self):
        return 80000

    def cases(self, ctx, g, n):
        cs = mk_eval_cases(g, n, 'c', funcs=0.3, acc=0.1, jnum=0.1, opaque=0.3, filter_heavy=0.6)
        # reflect.DeepEqual answers true for the SAME map/slice object even when it holds a value that is not
        # equal to itself (func, NaN); the model compares structurally and has no object identity.  Paths that
        # compare two paths therefore get documents without such leaves (DESIGN Appendix B).
        nonself = {k for k, (_, _, se) in core.KINDS.items() if not se}

        def scrub(d):
            if d[0] == 'x' and d[1] in nonself:
                return ('x', 'struct')
            if d[0] == 'a':
                return ('a', [scrub(x) for x in d[1]])
            if d[0] == 'o':
                return ('o', [(k, scrub(v)) for k, v in d[1]])
            return d
        for c in cs:
            if b'==' in c.path or b'!=' in c.path:
                c.docs = [scrub(d) for d in c.docs]
        # empty and nil containers of typed Go slice and map types against each other and against JSON's empty array and object: values
        # of different types are different values, whatever their reflect kind and however little they hold
        r = g.r
        empties = [('x', 'emptyintslice'), ('x', 'nilintslice'), ('x', 'emptystrslice'), ('x', 'emptyintmap'), ('x', 'nilintmap'), ('a', []), ('o', [])]
        for i in range(max(12, n // 300)):
            ys = r.sample(empties, r.randint(3, 6))
            doc = ('o', [(b'want', r.choice(empties)), (b'items', ('a', [('o', [(b'v', y), (b'id', ('n', float(j)))]) for j, y in enumerate(ys)]))])
            path = r.choice([b'$.items[?(@.v == $.want)].id', b'$.items[?(@.v != $.want)].id', b'$.items[?($.want == @.v)].id', b'$.items[?(@.v == $.items[0].v)].id'])
            cs.append(Case('emp%d' % i, path, [doc], meta={'family': 'typed-empty-containers', 'nsteps': 3}))
        # the foreign value as the WHOLE document, and one level down: the same treatment at every depth
        for j, kind in enumerate(sorted(core.KINDS)):
            for i, path in enumerate([b'$', b'$.a', b'$.*', b'$..a', b'$[0]', b'$[?(@.a)]', b'$..*', b"$['a','b']", b'$[0:1]', b'$.a.b']):
                doc = ('x', kind)
                cs.append(Case('root%d_%d' % (j, i), path, [doc, ('o', [(b'a', doc)]), ('a', [doc])], acc=(i + j) % 5 == 0,
                               meta={'family': 'foreign-root', 'nsteps': 1}))
        # regular expressions that match every text (and some digits): `=~` holds of STRINGS only — a foreign value is never matched, whatever
        # a String() / Error() / MarshalText method of its type would print
        for j, kind in enumerate(sorted(core.KINDS)):
            for i, pat in enumerate([b'.', b'^', b'.*', b'[0-9]', b'[a-zA-Z]', b'(?s).*']):
                if (i + j) % 2:
                    continue
                doc = ('a', [('o', [(b'd', ('x', kind)), (b'id', ('n', 0.0))]), ('o', [(b'd', ('s', b'2s 10 ab')), (b'id', ('n', 1.0))]), ('x', kind), ('s', b'7 z')])
                path = [b'$[?(@.d =~ /%s/)].id', b'$[?(@ =~ /%s/)]', b'$[?(@.d =~ /%s/ || @.id == 5)].id'][(i + j) % 3] % pat
                cs.append(Case('rxf%d_%d' % (j, i), path, [doc], meta={'family': 'regex-on-foreign-values', 'nsteps': 2}))
        # C20_foreign_value_at_depth_from_text: name and index steps down to a node that holds a foreign value, then one more step (and now
        # and then further ones): type unmatched naming that step, expected object / array, found the Go type (texts confirmed as Coq chain_path)
        def replace_at(d, spec, newv):
            if not spec:
                return newv
            st = spec[0]
            if st[0] == 1:
                k_ = int(''.join(chr(c_) for c_ in st[1]))
                return ('a', [replace_at(x, spec[1:], newv) if j == k_ else x for j, x in enumerate(d[1])])
            key = ''.join(chr(c_) for c_ in st[1]).encode('utf-8')
            last = max(j for j, (kk, _) in enumerate(d[1]) if kk == key)
            return ('o', [(kk, replace_at(x, spec[1:], newv) if j == last else x) for j, (kk, x) in enumerate(d[1])])
        for i in range(max(40, n // 60)):
            lc = gen_loc_chain(g)
            if lc is None:
                continue
            doc, text, spec, loc, val = lc
            kind = r.choice(sorted(core.KINDS))
            doc = replace_at(doc, spec, ('x', kind))
            if r.random() < 0.5:
                digits = r.choice(['0', '1', '-1', '00'])
                seg, step, want = '[%s]' % digits, (1, [ord(ch) for ch in digits]), 'array'
            else:
                nm = r.choice(['a', 'zz', 'k 1', 'Name'])
                style = r.choice("'\"." if ' ' not in nm else "'\"")
                seg = ('.' + nm) if style == '.' else '[%s%s%s]' % (style, nm, style)
                step, want = (0 if style == '.' else ord(style), [ord(ch) for ch in nm]), 'object'
            spec2, behind = spec + [step], ''
            for _ in range(r.choice([0, 0, 1])):
                behind += '.zz'
                spec2 = spec2 + [(0, [122, 122])]
            c = Case('fd%d' % i, (text + seg + behind).encode('utf-8'), [doc], acc=r.random() < 0.2,
                     meta={'family': 'coq-foreign-at-depth', 'nsteps': len(spec2), 'expect_r0': 'tum:%s:%s:%s' % (hx(seg.encode('utf-8')), want, hx(core.KINDS[kind][1]))})
            if not any(st[0] == 1 and st[1][0] == 45 for st in spec2):
                c.keyc = spec2       # (a signed index is outside the premises of the theorem: oracle case only)
            cs.append(c)
        return cs

    def project(self, o, c):
        out = {k: v for k, v in o.items() if k[0] in 'RC' or k == 'P' and False} | {'P': pclass(o.get('P', ''))}
        if c.keyc and o.get('KP') == '0':
            out['KP'] = 'the path sent is not Coq chain_path of its steps'
        return out

    def nontrivial(self, c, g):
        return g.get('P') == 'ok' and '<go:' in core.doc_json_text(c.docs[0])

    def on_go(self, res):
        def f(c, g):
            for k in rkeys(g, 'R'):
                if crashy(g[k]):
                    res.violation('concrete', sig_of(c, 'foreign-value-crash'), 'outcome %s for %r' % (g[k][:200], c.path), c, observed=g[k])
            if c.meta.get('expect_r0') and g.get('R0') != c.meta['expect_r0']:
                res.violation('concrete', sig_of(c, 'foreign-at-depth'), 'a step taken on a foreign value must be type-unmatched naming that step: %r' % (c.path,), c,
                              expected=c.meta['expect_r0'], observed=g.get('R0'))
        return f
