"""props_impl.py — the 20 property checks (dynamic part): generators, projections, direct
oracles.  Imported at the end of props.py.  See DESIGN §5/§6."""
import collections
import itertools
import os
import random
import re

import core
import gens
import strgen
from core import Case, hx, unhx
from props import (Prop, register, both_sides, cls_of, values_of, parse_render, mk_eval_cases, load_corpus,
                   crashy, case_from_desc, doc_from_json)

TRUSTED_EVAL = ['coq/Eval.v, coq/Tree.v, coq/Json.v: hand-written model of syntax_*.go, tied to the code by the '
                'correspondence check only',
                'Go strconv.ParseFloat / regexp answered by oracle tables produced by calling them directly']
TRUSTED_PARSE = ['coq/Grammar.v regenerated from /repo/jsonpath.peg by tools/peg2coq.py on every run',
                 'coq/Actions.v, coq/Text.v: hand-written model of jsonpath_parser.go and the grammar actions',
                 'the generated parser jsonpath.peg.go is not translated; it is validated differentially']


def sig_of(case, what):
    return '%s|%s|%s' % (what, case.path.decode('utf-8', 'backslashreplace'),
                         ';'.join(core.doc_json_text(d) for d in case.docs)[:300])


def harness_problem(o):
    for k in ('ORACLE_MISS', 'DRIVER_ERROR', 'RUNNER_ERROR'):
        if k in o:
            return '%s=%s' % (k, o[k])
    return None


def compare_cases(res, cases, go, mo, project, what, nontrivial=None, on_go=None):
    """generic correspondence: compare the property's projection of both observations"""
    for c, g, m in zip(cases, go, mo):
        res.evaluations += 1
        hp = harness_problem(g) or harness_problem(m)
        if hp:
            res.violation('broken-correspondence', 'harness:' + hp[:60], 'harness problem on %r: %s' % (c.path, hp), c)
            continue
        pg, pm = project(g, c), project(m, c)
        res.dist[cls_of(g.get('R0', 'P:' + g.get('P', '?')))] += 1
        if pg != pm:
            res.disagreements_checked += 1
            res.violation('concrete', sig_of(c, what),
                          '%s: implementation and verified model differ on %r' % (what, c.path), c,
                          expected=pm, observed=pg)
        if on_go:
            on_go(c, g)
        if nontrivial and nontrivial(c, g):
            res.nontrivial.add((c.path, tuple(core.doc_render(d) for d in c.docs)))
        if len(res.samples) < 6 and (not nontrivial or nontrivial(c, g)):
            res.sample({'path': c.path.decode('utf-8', 'backslashreplace'), 'docs': [core.doc_json_text(d) for d in c.docs][:3],
                        'observed': {k: v[:200] for k, v in g.items() if k != 'id'}})


def rkeys(o, prefix):
    return sorted((k for k in o if re.fullmatch(prefix + r'\d+', k)), key=lambda k: int(k[len(prefix):]))


def unwrap_acc(r):
    """A(1,v) -> v in an ok:[…] observation"""
    if not r.startswith('ok:['):
        return r
    vals = values_of(r)
    out = []
    for v in vals:
        if v.startswith('A(') and v.endswith(')'):
            out.append(v[4:-1])
        else:
            out.append(v)
    return 'ok:[' + ','.join(out) + ']'


def pclass(p):
    """parse outcome class used by C02: ok / syn / arg / fnf / nsp / crash…"""
    return cls_of(p)


def replay_generic(prop, ctx, res, v, project, what):
    c = case_from_desc(v['case'])
    go, mo = both_sides([c], runner=core.RUNNER_RACE if prop.needs_race else None)
    compare_cases(res, [c], go, mo, project, what)
    print('implementation: %s' % {k: x for k, x in go[0].items() if k != 'id'})
    print('model         : %s' % {k: x for k, x in mo[0].items() if k != 'id'})


class EvalProp(Prop):
    """a property decided by comparing a projection of (path, config, documents) cases"""
    what = ''
    trusted = TRUSTED_EVAL

    def project(self, o, c):
        raise NotImplementedError

    def cases(self, ctx, g, n):
        raise NotImplementedError

    def nontrivial(self, c, g):
        return True

    def on_go(self, res):
        return None

    def quick_n(self):
        return 3000

    def thorough_n(self):
        return 60000

    def run(self, ctx, res, budget_scale=1, seed_offset=0):
        g = gens.G(ctx.seed * 7919 + seed_offset + hash(self.id) % 1000)
        cases = []
        if seed_offset == 0:
            cases += load_corpus(self.id, ctx.root)
        n = ctx.n(self.quick_n(), self.thorough_n()) * budget_scale
        cases += self.cases(ctx, g, n)
        for k in range(0, len(cases), 20000):
            chunk = cases[k:k + 20000]
            go, mo = both_sides(chunk)
            compare_cases(res, chunk, go, mo, self.project, self.what, self.nontrivial, self.on_go(res))
        self.extra(ctx, res, g, budget_scale)

    def extra(self, ctx, res, g, budget_scale):
        pass

    def replay(self, ctx, res, v):
        replay_generic(self, ctx, res, v, self.project, self.what)


# =======================================================================================
@register
class C01(EvalProp):
    id = 'C01'
    what = 'returned values / failure'
    rule = ('seeded document-aware path generator (every step kind, filters nested <= 2, functions) x generated '
            'documents (float64 and json.Number); a case is non-trivial when retrieval succeeds with >= 2 values, or '
            'succeeds on a path of >= 3 steps')

    def cases(self, ctx, g, n):
        cs = mk_eval_cases(g, n, 'c', funcs=0.3, acc=0.0, jnum=0.2)
        # tree dumps for a subset: parser model vs the real parser, node by node
        for c in cs[: max(50, n // 10)]:
            c.mode = 'tree'
        return cs

    def project(self, o, c):
        out = {'P': pclass(o.get('P', ''))}
        for k in rkeys(o, 'R'):
            r = o[k]
            out[k] = r if r.startswith('ok:') else ('fail' if cls_of(r) in ('mne', 'tum', 'ff') else r)
        if 'T' in o:
            out['T'] = o['T']
        return out

    def nontrivial(self, c, g):
        r = g.get('R0', '')
        return r.startswith('ok:') and (len(values_of(r)) >= 2 or c.meta.get('nsteps', 0) >= 3)


@register
class C03(EvalProp):
    id = 'C03'
    what = 'outcome class of evaluation'
    rule = ('parsable generated paths (integer literals at the int64 limits included) x documents incl. empty '
            'containers, null/scalar roots, both decodings; non-trivial when the path parses and the root is a container')

    def quick_n(self):
        return 4000

    def thorough_n(self):
        return 80000

    def cases(self, ctx, g, n):
        cs = mk_eval_cases(g, n, 'c', funcs=0.35, acc=0.1, jnum=0.3, maxsteps=4)
        r = g.r
        for c in cs[::7]:
            c.docs = [r.choice([('z',), ('n', 1.0), ('s', b'x'), ('a', []), ('o', []), ('b', True)])]
        # boundary slices
        for i in range(n // 10):
            a = [None, 0, 1, -1, 2 ** 63 - 1, -2 ** 63, 2 ** 31, -2 ** 31 - 1]
            s = ('slice', r.choice(a), r.choice(a), r.choice(a[1:] + ['absent']))
            ln = r.randint(0, 5)
            cs.append(Case('b%d' % i, gens.render_path([('union', [s])]), [('a', [('n', float(k)) for k in range(ln)])]))
        return cs

    def project(self, o, c):
        out = {'P': pclass(o.get('P', ''))}
        for k in rkeys(o, 'R'):
            out[k] = cls_of(o[k])
        return out

    def nontrivial(self, c, g):
        return g.get('P') == 'ok' and c.docs and c.docs[0][0] in ('a', 'o')

    def on_go(self, res):
        def f(c, g):
            if g.get('P') != 'ok':
                return
            for k in rkeys(g, 'R'):
                r = g[k]
                if crashy(r) or cls_of(r) not in ('ok', 'mne', 'tum', 'ff'):
                    res.violation('concrete', sig_of(c, 'eval-not-total'), 'evaluation outcome %s on %r' % (r[:200], c.path), c, observed=r)
                if cls_of(r) == 'ff' and not any(call_fails(x) for x in split_calls(g.get('C' + k[1:], ''))):
                    res.violation('concrete', sig_of(c, 'ff-without-failure'),
                                  'ErrorFunctionFailed although no user function returned an error: %r' % (c.path,), c, observed=g)
        return f


def split_calls(s):
    out, depth, cur = [], 0, ''
    for ch in s:
        if ch in '([{':
            depth += 1
        elif ch in ')]}':
            depth -= 1
        if ch == ';' and depth == 0:
            out.append(cur)
            cur = ''
        else:
            cur += ch
    if cur:
        out.append(cur)
    return out


def call_fails(call):
    """does this logged library call return an error? (mirrors the function library)"""
    m = re.match(r'([FG])\((\w+),(.*)\)$', call, flags=re.S)
    if not m:
        return True
    kind, name, arg = m.groups()
    if name in ('fail', 'afail'):
        return True
    if name == 'twice':
        return not arg.startswith('n(')
    if name == 'fstr':
        return arg.startswith('s(')
    if name == 'first':
        return arg == '[]'
    if name == 'amax':
        items = values_of('ok:' + arg) if arg != '[]' else []
        return not any(x.startswith('n(') for x in items)
    return False


@register
class C04(EvalProp):
    id = 'C04'
    what = 'document after the call'
    rule = ('filter-heavy generated paths (== != && || ! over present, missing and $-rooted operands) x documents, '
            'plain and accessor mode; the document is rendered before and after every call; non-trivial when the '
            'path contains a filter and the filtered container has >= 2 members')

    def quick_n(self):
        return 4000

    def thorough_n(self):
        return 80000

    def cases(self, ctx, g, n):
        return mk_eval_cases(g, n, 'c', funcs=0.15, acc=0.3, jnum=0.2, filter_heavy=0.85)

    def project(self, o, c):
        # the model's write log (W) is the model-side counterpart of a changed document (M)
        return {'changed': sorted(k[1:] for k in o if re.fullmatch(r'[MW]\d+', k))}

    def nontrivial(self, c, g):
        return b'?(' in c.path and g.get('P') == 'ok'

    def on_go(self, res):
        def f(c, g):
            for k in rkeys(g, 'M'):
                res.violation('concrete', sig_of(c, 'document-modified'),
                              'the document was modified by evaluating %r' % (c.path,), c,
                              expected=core.doc_render(c.docs[int(k[1:])]), observed=g[k])
        return f


# =======================================================================================
def string_cases(ctx, g, n, prefix='s'):
    cases = []
    cfgs = [([], [], False, False), (gens.FILTER_FUNCS, gens.AGG_FUNCS, False, False),
            (gens.FILTER_FUNCS, gens.AGG_FUNCS, True, False), ([], [], False, True)]
    for i, (s, kind) in enumerate(strgen.strings(g, n, ctx.repo)):
        f, a, acc, nocfg = g.r.choice(cfgs) if g.r.random() < 0.5 else cfgs[1]
        cases.append(Case('%s%d' % (prefix, i), s, [], f, a, acc, nocfg, 'eval', meta={'kind': kind}))
    return cases


def exhaustive_string_cases(limit=None):
    cases = []
    for i, s in enumerate(itertools.chain(strgen.exhaustive_comparisons(), strgen.exhaustive_steps(3))):
        if limit and i >= limit:
            break
        cases.append(Case('x%d' % i, s, [], gens.FILTER_FUNCS, gens.AGG_FUNCS, False, False, 'eval', meta={'kind': 'exhaustive'}))
    return cases


DOC_PARSE = ('ok', 'syn', 'arg', 'fnf', 'nsp')


@register
class C02(EvalProp):
    id = 'C02'
    what = 'Parse outcome class'
    trusted = TRUSTED_PARSE
    rule = ('strings <= 256 bytes: grammar-derived paths (respelled), character-level mutations of them and of the '
            'suite paths (read from test_jsonpath_test.go at run time), token soup, arbitrary Unicode, invalid UTF-8; '
            'four configurations; thorough adds the bounded-exhaustive reduced grammar (all operand x operator x '
            'operand comparisons, all step sequences up to length 3). Each case runs in a worker process with a time '
            'limit. Non-trivial: the string is not rejected at offset 0 (distinct strings counted)')

    def quick_n(self):
        return 20000

    def thorough_n(self):
        return 300000

    def cases(self, ctx, g, n):
        cs = string_cases(ctx, g, n)
        cs += exhaustive_string_cases(None if not ctx.quick else 1800)
        return cs

    def project(self, o, c):
        return {'P': pclass(o.get('P', ''))}

    def nontrivial(self, c, g):
        p = g.get('P', '')
        return not p.startswith('syn:0:')

    def on_go(self, res):
        def f(c, g):
            p = g.get('P', '')
            res.dist['parse:' + pclass(p)] += 1
            res.dist['kind:' + c.meta.get('kind', '?')] += 1
            if pclass(p) not in DOC_PARSE or '!badtext' in p:
                res.violation('concrete', sig_of(c, 'parse-not-total'),
                              'Parse(%r) -> %s' % (c.path, p[:300]), c, observed=p)
        return f


@register
class C17(EvalProp):
    id = 'C17'
    what = 'accept/reject, error position and near'
    trusted = TRUSTED_PARSE
    rule = ('the C02 string generators; the generated parser is compared with the Coq PEG interpreter running the '
            'grammar regenerated from jsonpath.peg (accept/reject, error type, position, argument text; tree dumps for '
            'accepted paths); `near` must be the rest of the path from the reported character. Non-trivial: rejected '
            'at an offset > 0, or non-ASCII before the offset, or accepted')

    def quick_n(self):
        return 20000

    def thorough_n(self):
        return 300000

    def cases(self, ctx, g, n):
        cs = string_cases(ctx, g, n)
        for c in cs:
            if g.r.random() < 0.3:
                c.mode = 'tree'
        cs += exhaustive_string_cases(1800 if ctx.quick else None)
        return cs

    def project(self, o, c):
        out = {'P': o.get('P', '')}
        if 'T' in o:
            out['T'] = o['T']
        return out

    def nontrivial(self, c, g):
        p = g.get('P', '')
        return not p.startswith('syn:0:')

    def on_go(self, res):
        def f(c, g):
            p = g.get('P', '')
            if p.startswith('syn:'):
                pos = int(p.split(':')[1])
                offs = core.rune_byte_offsets(c.path)
                if pos > len(offs) - 1:
                    res.violation('concrete', sig_of(c, 'position-outside'), 'position %d outside %r' % (pos, c.path), c, observed=g)
                    return
                want = c.path[offs[pos]:]
                if unhx(g.get('X', '-')) != want:
                    res.violation('concrete', sig_of(c, 'near-wrong'),
                                  'near is not the rest of the path from character %d of %r' % (pos, c.path), c,
                                  expected=hx(want), observed=g.get('X'))
                if any(b >= 0x80 for b in c.path[:offs[pos]]):
                    res.dist['nonascii-before-offset'] += 1
        return f


# =======================================================================================
def py_slice_ref(n, s, e, t):
    if t == 0:
        return []
    return list(range(n))[slice(s, e, t)]


def py_index_ref(n, i):
    if 0 <= i < n:
        return [i]
    if -n <= i < 0:
        return [i + n]
    return []


def fmt_bound(x):
    return b'' if x is None else str(x).encode()


@register
class C11(Prop):
    id = 'C11'
    rule = ('`$[s:e:t]` / `$[n]` on arrays whose elements are their own indices; quick: a seeded sample of the small '
            'scope (s,e,t in {omitted} U [-7..7], len 0..6) plus every bound drawn from the boundary magnitudes '
            '{+-2^31, +-(2^63-1), -2^63, +-len, +-(len+1)}; thorough: the whole small scope (exhaustive). Expected '
            'values come from Python\'s own slice/range and from the Coq model. Non-trivial: the selection is non-empty '
            'or a bound was clamped')
    trusted = ['coq/Slice.v: hand-written model of syntax_subscript_*.go (64-bit wrap explicit), tied to the code by the '
               'correspondence check', 'Python list slicing as the independent reference']

    def run(self, ctx, res, budget_scale=1, seed_offset=0):
        r = random.Random(ctx.seed + seed_offset)
        small = [None] + list(range(-7, 8))
        combos = []
        if ctx.quick:
            for _ in range(2500 * budget_scale):
                combos.append((r.randint(0, 6), r.choice(small), r.choice(small), r.choice(small + ['absent'])))
        else:
            for n in range(0, 7):
                for s, e, t in itertools.product(small, small, small + ['absent']):
                    combos.append((n, s, e, t))
            res.exhaustive = True
        for n in range(0, 7):
            big = [2 ** 31, -2 ** 31, 2 ** 63 - 1, -(2 ** 63 - 1), -2 ** 63, n, -n, n + 1, -n - 1, None, 1, -1]
            if ctx.quick:
                for _ in range(120 * budget_scale):
                    combos.append((n, r.choice(big), r.choice(big), r.choice(big)))
            else:
                for s, e, t in itertools.product(big, repeat=3):
                    combos.append((n, s, e, t))
        cases = load_corpus(self.id, ctx.root) if seed_offset == 0 else []
        ncorp = len(cases)
        expect = [None] * ncorp
        for k, (n, s, e, t) in enumerate(combos):
            text = b'$[' + fmt_bound(s) + b':' + fmt_bound(e) + (b'' if t == 'absent' else b':' + fmt_bound(t)) + b']'
            cases.append(Case('s%d' % k, text, [('a', [('n', float(i)) for i in range(n)])]))
            expect.append(py_slice_ref(n, s, e, 1 if t in ('absent', None) else t))
        idxs = list(range(-9, 10)) + [2 ** 31, -2 ** 31, 2 ** 63 - 1, -2 ** 63, -(2 ** 63 - 1)]
        for n in range(0, 7):
            for i in idxs:
                cases.append(Case('i%d_%d' % (n, i), b'$[%d]' % i, [('a', [('n', float(k)) for k in range(n)])]))
                expect.append(py_index_ref(n, i))
        go, mo = both_sides(cases)
        for c, g, m, want in zip(cases, go, mo, expect):
            res.evaluations += 1
            hp = harness_problem(g) or harness_problem(m)
            if hp:
                res.violation('broken-correspondence', 'harness:' + hp[:60], hp, c)
                continue
            gr, mr = g.get('R0', 'P:' + g.get('P', '')), m.get('R0', 'P:' + m.get('P', ''))
            if want is not None:
                exp = 'ok:[' + ','.join(core.render_num(float(i)) for i in want) + ']' if want else 'mne'
                got = gr if gr.startswith('ok:') else cls_of(gr)
                if got != exp:
                    res.violation('concrete', sig_of(c, 'slice-differs-from-python'),
                                  '%r on an array of %d elements: Python selects %s' % (c.path, len(c.docs[0][1]), want), c,
                                  expected=exp, observed=gr)
                if want or (len(c.docs[0][1]) > 0):
                    res.nontrivial.add((c.path, len(c.docs[0][1])))
            if gr != mr:
                res.disagreements_checked += 1
                res.violation('concrete', sig_of(c, 'slice-model'), 'implementation and model differ on %r' % (c.path,), c,
                              expected=mr, observed=gr)
            res.dist[cls_of(gr)] += 1
            if len(res.samples) < 6 and want:
                res.sample({'path': c.path.decode(), 'len': len(c.docs[0][1]), 'python': want, 'observed': gr})

    def replay(self, ctx, res, v):
        replay_generic(self, ctx, res, v, lambda o, c: {k: o[k] for k in o if k[0] in 'PR'}, 'slice')
