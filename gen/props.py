"""props.py — the per-property checks: generators, projections, direct oracles, judging,
evidence.  See DESIGN §5/§6."""
import collections
import json
import os
import random
import re
import sys
import time

import core
import gens
from core import Case, hx, unhx

# ---------------------------------------------------------------------------------------
ALLOWED_AXIOMS = {
    # axioms declared by Coq's standard library that a proof may depend on (none is expected)
    'functional_extensionality_dep', 'proof_irrelevance', 'classic', 'JMeq_eq', 'Eqdep.Eq_rect_eq.eq_rect_eq',
}


class Context:
    def __init__(self, pid, tier, seed, build, root, repo):
        self.pid, self.tier, self.seed, self.build, self.root, self.repo = pid, tier, seed, build, root, repo
        self.theorems = None
        self.forbidden = []
        self.cone = set()
        self.quick = tier != 'thorough'

    def n(self, quick, thorough):
        return quick if self.quick else thorough


class Result:
    def __init__(self):
        self.evaluations = 0
        self.nontrivial = set()
        self.samples = []
        self.violations = []        # dicts: kind, signature, what, case, expected, observed
        self.dist = collections.Counter()
        self.notes = []
        self.exhaustive = False
        self.disagreements_checked = 0

    def violation(self, kind, signature, what, case=None, expected=None, observed=None, extra=None):
        v = {'kind': kind, 'signature': signature, 'what': what}
        if case is not None:
            v['case'] = case.describe() if isinstance(case, Case) else case
        if expected is not None:
            v['expected'] = expected
        if observed is not None:
            v['observed'] = observed
        if extra:
            v.update(extra)
        self.violations.append(v)

    def sample(self, s, limit=6):
        if len(self.samples) < limit:
            self.samples.append(s)


class Prop:
    id = ''
    needs_race = False
    rule = ''
    trusted = []
    assumptions = []

    def run(self, ctx, res, budget_scale=1, seed_offset=0):
        raise NotImplementedError


REGISTRY = {}


def register(cls):
    REGISTRY[cls.id] = cls()
    return cls


# ---------------------------------------------------------------------------------------
# shared engines
def both_sides(cases, go_timeout=20000, runner=None):
    """run implementation and model on the same cases"""
    if not cases:
        return [], []
    core.fill_tables(cases, runner)
    go = core.run_go(cases, timeout_ms=go_timeout, runner=runner)
    mo = core.run_model(cases)
    return go, mo


def cls_of(obs):
    """outcome class of an R/P observation"""
    if obs is None:
        return 'none'
    return obs.split(':', 1)[0].split('!', 1)[0]


def values_of(obs):
    """the rendered values of an ok:[…] observation as a list of strings (top-level split)"""
    assert obs.startswith('ok:[') and obs.endswith(']'), obs
    body = obs[4:-1]
    out, depth, cur = [], 0, ''
    for ch in body:
        if ch in '[{(':
            depth += 1
        elif ch in ']})':
            depth -= 1
        if ch == ',' and depth == 0:
            out.append(cur)
            cur = ''
        else:
            cur += ch
    if cur:
        out.append(cur)
    return out


def parse_render(s):
    """canonical rendering -> doc tuple (inverse of core.doc_render for JSON values)"""
    pos = [0]

    def item():
        c = s[pos[0]]
        if c == 'z':
            pos[0] += 1
            return ('z',)
        if c == 't':
            pos[0] += 1
            return ('b', True)
        if c == 'f':
            pos[0] += 1
            return ('b', False)
        if c == 'n':
            end = s.index(')', pos[0])
            inner = s[pos[0] + 2:end]
            pos[0] = end + 1
            if ',' in inner:
                m, e = inner.split(',')
                return ('n', float(int(m)) * (2.0 ** int(e)) if abs(int(e)) < 1000 else float(int(m) * 2 ** int(e)) if int(e) > 0 else int(m) / (2 ** -int(e)))
            return ('n', {'pinf': float('inf'), 'ninf': float('-inf'), 'nan': float('nan')}[inner])
        if c == 'j':
            end = s.index(')', pos[0])
            sp = unhx(s[pos[0] + 2:end]).decode()
            pos[0] = end + 1
            return ('j', sp)
        if c == 's':
            end = s.index(')', pos[0])
            b = unhx(s[pos[0] + 2:end])
            pos[0] = end + 1
            return ('s', b)
        if c == '[':
            pos[0] += 1
            items = []
            while s[pos[0]] != ']':
                items.append(item())
                if s[pos[0]] == ',':
                    pos[0] += 1
            pos[0] += 1
            return ('a', items)
        if c == '{':
            pos[0] += 1
            items = []
            while s[pos[0]] != '}':
                colon = s.index(':', pos[0])
                k = unhx(s[pos[0]:colon])
                pos[0] = colon + 1
                items.append((k, item()))
                if s[pos[0]] == ',':
                    pos[0] += 1
            pos[0] += 1
            return ('o', items)
        if c == 'x':
            end = s.index(')', pos[0])
            ty, idx = s[pos[0] + 2:end].split(',')
            pos[0] = end + 1
            for name, (i, t, _) in core.KINDS.items():
                if i == int(idx):
                    return ('x', name)
            raise ValueError('unknown opaque ' + s)
        raise ValueError('cannot parse rendering at %d: %s' % (pos[0], s[pos[0]:pos[0] + 20]))

    d = item()
    if pos[0] != len(s):
        raise ValueError('trailing rendering: ' + s[pos[0]:])
    return d


def mk_eval_cases(g, n, prefix, funcs=0.0, acc=0.0, jnum=0.15, opaque=0.0, filter_heavy=0.5, maxsteps=4, families=0.2, alias=0.0, fanout=0.0):
    cases = _mk_eval_cases(g, n, prefix, funcs, acc, jnum, opaque, filter_heavy, maxsteps, families, fanout)
    if alias:
        # documents assembled in Go code: one sub-container referenced from two places (shared, not copied)
        for c in cases:
            if g.r.random() < (alias * 3 if b'..' in c.path else alias) and len(c.docs) == 1 and not c.acc:
                d = gens.alias_variant(g.r, c.docs[0])
                if d is not None:
                    c.docs = [d]
                    c.alias = True
                    c.meta['alias'] = True
    return cases


def _mk_eval_cases(g, n, prefix, funcs, acc, jnum, opaque, filter_heavy, maxsteps, families, fanout):
    cases = []
    for i in range(n):
        if fanout and g.r.random() < fanout:
            doc, steps = gens.big_fanout_family(g)
            cases.append(Case('%s%d' % (prefix, i), gens.render_path(steps), [doc], [], [], meta={'nsteps': len(steps), 'family': 'big-fanout'}))
            continue
        jn = g.r.random() < jnum
        k = g.r.random()
        if k < families * 0.15:
            doc, steps = gens.allwild_family(g)
            cases.append(Case('%s%d' % (prefix, i), gens.render_path(steps), [doc], [], [], acc=(g.r.random() < acc),
                              meta={'nsteps': len(steps), 'family': 'all-wildcard'}))
            continue
        if k < families * 0.25 and jn:
            doc, path = gens.jnum_order_family(g)
            cases.append(Case('%s%d' % (prefix, i), path, [doc], [], [], acc=(g.r.random() < acc), meta={'nsteps': 2, 'family': 'jnum-order'}))
            continue
        if k < families * 0.35 and funcs:
            doc, path, aggs = gens.operand_agg_family(g)
            cases.append(Case('%s%d' % (prefix, i), path, [doc], [], aggs, acc=(g.r.random() < acc), meta={'nsteps': 3, 'family': 'operand-aggregate'}))
            continue
        if k < families * 0.8:
            kinds = None
            if opaque and g.r.random() < 0.5:
                kinds = sorted(kk for kk, (_, _, se) in core.KINDS.items() if se)
            doc, exprs = gens.refs_family(g, jn and not kinds, kinds)
            tail = g.r.choice([b'', b'', b'.k', b'.u', b'[0]', b'.*'])
            path = b'$.list[?(' + g.r.choice(exprs) + b')]' + tail
            cases.append(Case('%s%d' % (prefix, i), path, [doc], [], [], acc=(g.r.random() < acc), meta={'nsteps': 2, 'family': 'refs'}))
            continue
        if k < families:
            doc, steps = gens.nested_arrays_family(g)
            cases.append(Case('%s%d' % (prefix, i), gens.render_path(steps), [doc], [], [], acc=(g.r.random() < acc),
                              meta={'nsteps': len(steps), 'family': 'nested-arrays'}))
            continue
        doc = g.filter_doc(jn, opaque) if g.r.random() < filter_heavy else g.doc(3, jn, opaque)
        steps = g.gen_path(doc, maxsteps, funcs)
        # now and then without the leading `$` (a bracket or a bare name may start a path)
        path = gens.render_path(steps, None, dollar=g.r.random() > 0.1)
        f, a = gens.funcs_used(steps)
        cases.append(Case('%s%d' % (prefix, i), path, [doc], f, a, acc=(g.r.random() < acc), meta={'nsteps': len(steps)}))
    return cases


def load_corpus(pid, root):
    """minimised earlier failures and the documented defect inputs: they run first"""
    path = os.path.join(root, 'corpus', pid + '.jsonl')
    out = []
    if os.path.exists(path):
        for k, line in enumerate(open(path)):
            line = line.strip()
            if not line or line.startswith('#'):
                continue
            d = json.loads(line)
            docs = [doc_from_json(x) for x in d.get('docs', [])]
            out.append(Case('corpus%d' % k, unhx(d['path_hex']) if 'path_hex' in d else d['path'].encode(), docs,
                            d.get('filters', []), d.get('aggs', []), d.get('acc', False), d.get('nocfg', False),
                            d.get('mode', 'eval'), meta={'corpus': d.get('note', '')}))
    return out


def doc_from_json(x):
    """plain JSON (numbers float64; {"$j": "1.0"} json.Number; {"$x": kind} opaque) -> doc tuple"""
    if x is None:
        return ('z',)
    if isinstance(x, bool):
        return ('b', x)
    if isinstance(x, (int, float)):
        return ('n', float(x))
    if isinstance(x, str):
        return ('s', x.encode('utf-8'))
    if isinstance(x, list):
        return ('a', [doc_from_json(v) for v in x])
    if isinstance(x, dict):
        if set(x) == {'$j'}:
            return ('j', x['$j'])
        if set(x) == {'$x'}:
            return ('x', x['$x'])
        return ('o', [(k.encode('utf-8'), doc_from_json(v)) for k, v in x.items()])
    raise ValueError(x)


def doc_to_plain(d):
    t = d[0]
    if t == 'z':
        return None
    if t in ('b', 'n'):
        return d[1]
    if t == 'j':
        return {'$j': d[1]}
    if t == 's':
        return d[1].decode('utf-8', 'replace')
    if t == 'a':
        return [doc_to_plain(x) for x in d[1]]
    if t == 'o':
        return {k.decode('utf-8', 'replace'): doc_to_plain(v) for k, v in d[1]}
    if t == 'x':
        return {'$x': d[1]}


def crashy(obs):
    return cls_of(obs) in ('crash', 'timeout', 'panic', 'undoc', 'nilnil', 'both', 'emptyok')


# ---------------------------------------------------------------------------------------
# the generic run: proofs, dynamic part, search, known findings, evidence
def assumption_report(ctx):
    """(ok, text) — every Print Assumptions under the property theorems must be closed, or
    name only standard-library axioms"""
    th = ctx.theorems
    if th is None:
        return False, 'no theorem file coq/Prop_%s.v' % ctx.pid
    if not th['compiled']:
        return False, 'theorem file did not compile'
    text = th['assumptions']
    closed = text.count('Closed under the global context')
    axioms = re.findall(r'^([A-Za-z_][\w.]*)\s*:', text, flags=re.M)
    axioms = [a for a in axioms if a not in ('Axioms',)]
    bad = [a for a in axioms if a.split('.')[-1] not in ALLOWED_AXIOMS and a not in ALLOWED_AXIOMS]
    if bad:
        return False, 'theorems depend on non-library axioms: %s' % ', '.join(bad)
    if closed + (1 if axioms else 0) == 0:
        return False, 'no Print Assumptions output found'
    return True, text.strip()


def run_check(ctx, prop, t0):
    res = Result()
    broken = []       # proof-side problems (theorem or translator)
    st = ctx.build
    if st.translator_error:
        broken.append('translator could not read jsonpath.peg: ' + st.translator_error)
    th = ctx.theorems
    if th is None:
        broken.append('no theorem file for this property')
    else:
        failed_in_cone = [f for f in st.coq_failed if f in ctx.cone or f == '?']
        if failed_in_cone or not th['compiled']:
            broken.append('proof obligations no longer check: %s' % (', '.join(failed_in_cone) or os.path.basename(th['file'])))
    if ctx.forbidden:
        broken.append('forbidden vernacular in the development: ' + '; '.join(ctx.forbidden))
    ok_ax, ax_text = assumption_report(ctx)
    if not ok_ax and not broken:
        broken.append(ax_text)
    if st.grammar_info.get('action_mismatch_with_peg_go') or st.grammar_info.get('extra_go_actions'):
        res.notes.append('grammar actions differ between jsonpath.peg and jsonpath.peg.go: %s' %
                         (st.grammar_info.get('action_mismatch_with_peg_go'),))
    if st.go_error:
        res.violation('broken-correspondence', 'go-build', 'the runner does not build against /repo: ' + st.go_error[-500:])
    else:
        try:
            prop.run(ctx, res)
        except Exception as ex:  # a harness failure must not pass silently
            import traceback
            traceback.print_exc()
            res.violation('broken-correspondence', 'harness-error', 'harness error: %r' % (ex,))
        if broken and not any(v['kind'] == 'concrete' for v in res.violations):
            # a proof obligation broke: search harder for a concrete failing input
            for k in range(1, 4):
                try:
                    prop.run(ctx, res, budget_scale=3, seed_offset=1000 * k)
                except Exception as ex:
                    res.notes.append('search round failed: %r' % (ex,))
                if any(v['kind'] == 'concrete' for v in res.violations):
                    break
    if ctx.pid == 'C01' and not ctx.quick and not broken:
        # thorough tier: re-check every compiled property file with the independent checker
        import subprocess
        coq = os.path.join(ctx.root, 'coq')
        mods = ['JP.' + os.path.basename(f)[:-2] for f in sorted(__import__('glob').glob(os.path.join(coq, 'Prop_C*.v')))]
        try:
            p = subprocess.run(['coqchk', '-silent', '-o', '-Q', coq, 'JP'] + mods, capture_output=True, text=True, timeout=7200)
            out = p.stdout + p.stderr
            axioms = re.search(r'\* Axioms:(.*?)\n\s*\n', out, flags=re.S)
            res.notes.append('coqchk exit %d; axioms: %s' % (p.returncode, ' '.join(axioms.group(1).split()) if axioms else '?'))
            if p.returncode != 0 or not axioms or '<none>' not in axioms.group(1):
                broken.append('coqchk does not accept the development or reports axioms: %s' % out[-400:])
        except Exception as ex:
            res.notes.append('coqchk could not be run: %r' % (ex,))
    for b in broken:
        res.violation('broken-theorem', 'proof', b)
    return finish(ctx, prop, res, t0, ax_text if ok_ax else '')


def load_known(root):
    path = os.path.join(root, 'known_findings.json')
    if os.path.exists(path):
        return json.load(open(path))
    return {'known': [], 'fixed': []}


def finish(ctx, prop, res, t0, ax_text):
    known = load_known(ctx.root)
    listed = [k for k in known.get('known', []) if k['property'] == ctx.pid]
    reported, seen_sig = [], set()
    concrete = [v for v in res.violations if v['kind'] == 'concrete']
    others = [v for v in res.violations if v['kind'] != 'concrete']
    for v in concrete + others:
        match = [k for k in listed if k['signature'] == v['signature']]
        if match:
            continue
        if v['signature'] in seen_sig:
            continue
        seen_sig.add(v['signature'])
        reported.append(v)
    for k in listed:
        print('KNOWN-FINDING: property=%s %s' % (ctx.pid, k['what']))
    rdir = os.path.join(ctx.root, 'build', 'replay')
    os.makedirs(rdir, exist_ok=True)
    has_concrete = any(v['kind'] == 'concrete' for v in reported)
    n = 0
    for v in reported[:5]:
        if v['kind'] != 'concrete' and has_concrete:
            continue
        n += 1
        path = os.path.join(rdir, '%s_%d.json' % (ctx.pid, n))
        v = dict(v, property=ctx.pid, seed=ctx.seed, tier=ctx.tier,
                 replay_cmd='python3 bin/check.py %s --replay %s' % (ctx.pid, path))
        json.dump(v, open(path, 'w'), indent=1, default=str)
        tail = '' if v['kind'] == 'concrete' else ' no-failing-input-found'
        print('VIOLATION property=%s replay=%s%s' % (ctx.pid, path, tail))
        sys.stderr.write('  %s: %s\n' % (v['kind'], v['what'][:400]))
    # evidence
    th = ctx.theorems or {'names': [], 'compiled': False, 'statements': [], 'file': ''}
    obligations = max(1, len(th['names']))
    discharged = len(th['names']) if th['compiled'] and not any(v['kind'] == 'broken-theorem' for v in res.violations) else 0
    ev = {
        'property_id': ctx.pid, 'tier': 'quick' if ctx.quick else 'thorough', 'seed': ctx.seed, 'level': 'proof',
        'coverage': {
            'obligations': obligations, 'discharged': discharged,
            'checker_cmd': 'make -C coq (coqc 8.16.1, full .vo build) && coqc -Q coq JP coq/Prop_%s.v (Print Assumptions)' % ctx.pid,
            'trusted_base': ['Coq 8.16.1 kernel (vm_compute used, native_compute not used)',
                             'tools/peg2coq.py (grammar translator)', 'extraction via ExtrOcamlBasic only (no Extract Constant)',
                             'ocaml/driver.ml, go/runner, gen/*.py (correspondence check)'] + list(prop.trusted),
            'theorems': th['statements'],
            'print_assumptions': ax_text[-1500:],
            'evaluations': res.evaluations, 'distinct_nontrivial': len(res.nontrivial),
            'rule': prop.rule, 'samples': res.samples or [{'note': 'no dynamic cases were run'}],
            'distribution': dict(res.dist.most_common(40)),
            'disagreements_checked': res.disagreements_checked,
            'exhaustive': res.exhaustive,
            'notes': res.notes,
        },
        'assumptions': list(prop.assumptions),
        'wall_s': round(time.time() - t0, 2),
        'violations': len(reported),
    }
    edir = os.path.join(ctx.root, 'evidence')
    os.makedirs(edir, exist_ok=True)
    json.dump(ev, open(os.path.join(edir, ctx.pid + '.json'), 'w'), indent=1, default=str)
    print('%s %s: %d cases, %d non-trivial, %d/%d theorems, %d violation(s), %.1fs' %
          (ctx.pid, ev['tier'], res.evaluations, len(res.nontrivial), discharged, obligations, len(reported), ev['wall_s']))
    return 1 if reported else 0


def replay(ctx, prop, path):
    v = json.load(open(path))
    res = Result()
    if 'case' not in v:
        print('replay: %s records no concrete input (%s)' % (path, v.get('what')))
        return 1
    prop.replay(ctx, res, v)
    for x in res.violations:
        print('REPRODUCED: %s' % x['what'][:500])
    return 1 if res.violations else 0


def case_from_desc(d, cid='replay'):
    docs = [doc_from_desc(x) for x in d.get('docs_desc', [])]
    c = Case(cid, unhx(d['path_hex']), docs, d.get('filters', []), d.get('aggs', []), d.get('accessor', False),
             d.get('nocfg', False), d.get('mode', 'eval'), d.get('meta'))
    c.alias = bool(d.get('alias'))
    c.packed = int(d.get('packed') or 0)
    c.pinned = bool(d.get('pinned'))
    return c


def doc_from_desc(x):
    if x is None:
        return ('z',)
    if isinstance(x, bool):
        return ('b', x)
    if 'n' in x:
        if isinstance(x['n'], str):
            return ('n', {'pinf': float('inf'), 'ninf': float('-inf')}[x['n']])
        m, e = int(x['n'][0]), int(x['n'][1])
        return ('n', float(m) * 2.0 ** e if -1000 < e < 1000 else m * 2.0 ** e)
    if 'j' in x:
        return ('j', x['j'])
    if 's' in x:
        return ('s', unhx(x['s']))
    if 'a' in x:
        return ('a', [doc_from_desc(v) for v in x['a']])
    if 'o' in x:
        return ('o', [(unhx(k), doc_from_desc(v)) for k, v in x['o']])
    if 'x' in x:
        return ('x', x['x'])
    raise ValueError(x)


from props_impl import *  # noqa: E402,F401,F403  (registers the properties)
